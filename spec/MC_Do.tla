-------------------------------- MODULE MC_Do --------------------------------
(* .do candidates, cwd, $1 and $2 for every target of the family *)
EXTENDS RedoPaths, Json
CONSTANTS MaxDepth, MaxName
DirNames == {<<"d">>, <<"e", ".", "f">>}
NameAlphabet == {"a", "."}
Names == (UNION {[1..n -> NameAlphabet] : n \in 1..MaxName}) \ {<<".">>, <<".", ".">>}
Dirs == UNION {[1..n -> DirNames] : n \in 0..MaxDepth}
VARIABLES dirs, name
Init == dirs \in Dirs /\ name \in Names
Next == UNCHANGED <<dirs, name>>
Spec == Init /\ [][Next]_<<dirs, name>>

C == Candidates(dirs, name)
\* the specific rule comes first, every directory is exhausted before its parent, longest extension first
FirstIsSpecific == C[1].dofile = name \o <<".", "d", "o">> /\ C[1].dodir = dirs
DirsNeverDeepen == \A i \in 1..(Len(C) - 1) : Len(C[i + 1].dodir) <= Len(C[i].dodir)
LongestExtFirst == \A i \in 2..(Len(C) - 1) : C[i].dodir = C[i + 1].dodir => Len(C[i].dofile) > Len(C[i + 1].dofile)
\* $2 is $1 without the matched extension; $1 names the target from the script's directory
ArgsConsistent == \A i \in 1..Len(C) :
    /\ Clean(<<Sep>> \o JoinC(C[i].dodir, 1) \o <<Sep>> \o C[i].arg1) = Clean(<<Sep>> \o JoinC(dirs, 1) \o <<Sep>> \o name)
    /\ Len(C[i].arg2) <= Len(C[i].arg1) /\ SubSeq(C[i].arg1, 1, Len(C[i].arg2)) = C[i].arg2
Count == Len(C) = 1 + (Len(dirs) + 1) * (Len(DotPositions(name)) + 1)
Export == PrintT("@@" \o ToJson([dirs |-> dirs, name |-> name, cands |-> C]))
=============================================================================
