------------------------------ MODULE MC_Clean ------------------------------
(* every string up to MaxLen over the path alphabet: laws of Clean, export of the table *)
EXTENDS RedoPaths, Json
CONSTANT MaxLen
Alphabet == {"/", ".", "a", "b"}
Strings == UNION {[1..n -> Alphabet] : n \in 0..MaxLen}
VARIABLE p
Init == p \in Strings
Next == UNCHANGED p
Spec == Init /\ [][Next]_p

Idempotent == Clean(Clean(p)) = Clean(p)
Preserves  == Denote(Clean(p)) = Denote(p)
\* Clean yields the one canonical spelling of the meaning: two spellings of one file are cleaned to the same string
Canonical  == Clean(p) = Render(Denote(p))
Export == PrintT("@@" \o ToJson([p |-> p, clean |-> Clean(p)]))
=============================================================================
