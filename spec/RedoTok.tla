------------------------------- MODULE RedoTok -------------------------------
(***************************************************************************)
(* The token arithmetic of jobserver.rs ServerState as pure functions on   *)
(* (my_tokens, cheats).  Shared by RedoJobs (model checking) and TraceJobs *)
(* (validation of event traces of the real binaries).                      *)
(***************************************************************************)
EXTENDS Naturals, Integers

Min2(a, b) == IF a < b THEN a ELSE b

\* create_tokens(n) (jobserver.rs:580-590): each new token first cancels one of my cheats
CreateTok(my, ch, n) == LET c == Min2(ch, n) IN [my |-> my + (n - c), ch |-> ch - c]

\* release(n) (jobserver.rs:609-630): each released token first cancels a cheat,
\* the rest are written to the token pipe
RelTok(my, ch, n) == LET c == Min2(ch, n) IN [my |-> my - n, ch |-> ch - c, shared |-> n - c]

=============================================================================
