------------------------------ MODULE RedoExec ------------------------------
(***************************************************************************)
(* How a .do file is executed (builder.rs, start_self): the job runs       *)
(*     sh -e <dofile> $1 $2 $3                                             *)
(* unless the first line of the file, with surrounding white space removed,*)
(* starts with "#!/": then the words of that line after "#!", split at     *)
(* single blanks, take the place of `sh -e` (the interpreter and its       *)
(* arguments).  Lines are sequences of one-character strings.              *)
(***************************************************************************)
EXTENDS Sequences, Naturals

IsWs(c) == c \in {" ", "\t", "\n", "\r"}

RECURSIVE TrimL(_), TrimR(_), SplitSp(_)
TrimL(l) == IF l # << >> /\ IsWs(Head(l)) THEN TrimL(Tail(l)) ELSE l
TrimR(l) == IF l # << >> /\ IsWs(l[Len(l)]) THEN TrimR(SubSeq(l, 1, Len(l) - 1)) ELSE l
Trim(l)  == TrimR(TrimL(l))                   \* str::trim

\* str::split(' '): the pieces between blanks; adjacent blanks give empty pieces, a tab does not separate
SplitSp(l) ==
    IF \A i \in 1..Len(l) : l[i] # " " THEN <<l>>
    ELSE LET k == CHOOSE k \in 1..Len(l) : l[k] = " " /\ \A j \in 1..(k - 1) : l[j] # " "
         IN <<SubSeq(l, 1, k - 1)>> \o SplitSp(SubSeq(l, k + 1, Len(l)))

Sh == <<"s", "h">>
DashE == <<"-", "e">>

HasInterpreter(l) == LET t == Trim(l) IN Len(t) >= 3 /\ SubSeq(t, 1, 3) = <<"#", "!", "/">>

\* what precedes <dofile> $1 $2 $3 on the command line of the job
Prefix(l) == IF HasInterpreter(l) THEN LET t == Trim(l) IN SplitSp(SubSeq(t, 3, Len(t))) ELSE <<Sh, DashE>>

Argv(l, rest) == Prefix(l) \o rest

(* Properties of the rule itself *)
\* there is always a program to execute, whatever the first line is (no line makes the argument vector empty or its
\* first word empty)
ProgramNonEmpty(l) == Len(Prefix(l)) >= 1 /\ Prefix(l)[1] # << >>
\* the program is the shell or an absolute path
ProgramShOrAbsolute(l) == Prefix(l)[1] = Sh \/ Prefix(l)[1][1] = "/"
\* the script and its three arguments are always passed on, last
ArgsKept(l, rest) == LET a == Argv(l, rest) IN SubSeq(a, Len(a) - Len(rest) + 1, Len(a)) = rest
\* a line that is not an interpreter line changes nothing
PlainIsSh(l) == ~HasInterpreter(l) => Prefix(l) = <<Sh, DashE>>
=============================================================================
