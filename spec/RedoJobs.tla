------------------------------ MODULE RedoJobs ------------------------------
(***************************************************************************)
(* The jobserver of redo-rs (src/jobserver.rs) and the scheduler loop of   *)
(* builder::run (src/builder.rs:707-908) at poll-cycle granularity.        *)
(*                                                                         *)
(* Shared state: the token pipe and the cheat pipe (byte counts), the tree *)
(* of redo processes (each with my_tokens / cheats, its running jobs, the  *)
(* await point its async body is parked at, the state of the futures it    *)
(* waits on) and the script jobs.  One action per atomic unit:             *)
(*   Body steps   the async body runs from one await point to the next     *)
(*   Handle       a job's completion handler (job_futures), in the random  *)
(*                order futures::select! allows                            *)
(*   Wake         block_on wakes a timer / a token waiter without I/O      *)
(*   Select       select(): captures the set of ready fds                  *)
(*   HandleFd     one ready fd: token read (may be stolen) or child reap   *)
(*   JobCall/JobResume/JobExit   the .do script                            *)
(* Every assert!() on these paths is a guard whose failure sets rc = 101.  *)
(*                                                                         *)
(* The pure token arithmetic (TokOps below) is shared with TraceJobs.tla,  *)
(* which validates event traces of the real binaries against it.           *)
(***************************************************************************)
EXTENDS RedoTok, Sequences, FiniteSets, FiniteSetsExt, TLC

CONSTANTS
    J,          \* total number of job tokens (-jJ, or 1 + tokens in the inherited pipe)
    Own,        \* TRUE: the top-level redo owns the jobserver; FALSE: inherited through MAKEFLAGS
    TopTargs,   \* Seq(target): command line of the top-level redo
    Kids,       \* [target -> Seq(Seq(target))]: the redo-ifchange calls of the target's script
    Fail,       \* targets whose script exits non-zero
    Clean,      \* targets that need no build (no job is started)
    Ext,        \* targets locked by another invocation at the start (released at any time)
    Keep,       \* --keep-going
    Cheating,   \* TRUE: a log viewer may hold the log lock of any running target
    TokFirst,   \* TRUE: the token fd is lower than the job fds (inherited make jobserver)
    MaxWorld,   \* how many tokens the outside world (make) may hold at a time
    FixP2,      \* TRUE: pass 2 re-acquires a token before it needs one (repaired behaviour)
    FixExit     \* TRUE: a process that inherited the jobserver re-acquires a token before it exits

Targets == DOMAIN Kids
None == << >>
TopPid == <<"T">>
TokFd == <<"tok">>

VARIABLES
    pipe,    \* bytes in the token pipe
    cpipe,   \* bytes in the cheat pipe
    world,   \* tokens currently held by the outside world
    pr,      \* [pid -> redo process record]
    jb,      \* [job id -> script job record]
    ext,     \* targets still locked by the other invocation
    viewer   \* target whose log lock the viewer holds ("" = none)

vars == <<pipe, cpipe, world, pr, jb, ext, viewer>>

(***************************************************************************)
(* Records                                                                 *)
(***************************************************************************)
ProcRec(par, targs, top) ==
    [par |-> par, top |-> top, targs |-> targs, i |-> 1, queue |-> << >>, cur |-> "",
     jobs |-> {}, unh |-> {}, err |-> 0,
     my |-> 1, ch |-> 0, ret |-> FALSE,
     pc |-> "setup", et |-> "", md |-> "run", fds |-> << >>,
     want |-> FALSE, tm |-> "none", rc |-> -1]

JobRec(t, par) == [t |-> t, par |-> par, st |-> "run", rv |-> 0, kid |-> None, k |-> 1]

Live(p)     == p \in DOMAIN pr /\ pr[p].pc # "done"
Running(P)  == P.jobs # {}
HasPar(P)   == P.par # None \/ ~Own       \* born holding a token that belongs to its parent job / make
Working(c)  == jb[c].st = "run" /\ jb[c].kid = None

Upd(p, P)   == pr' = [pr EXCEPT ![p] = P]
Panic(p)    == Upd(p, [pr[p] EXCEPT !.pc = "done", !.rc = 101, !.md = "run"])
\* an error return out of run(): main still calls force_return_tokens and exits with the code
ErrExit(p, code) == Upd(p, [pr[p] EXCEPT !.pc = "ret", !.err = code, !.md = "run"])

Init ==
    /\ pipe = IF Own THEN 0 ELSE J - 1
    /\ cpipe = 0
    /\ world = 0
    /\ pr = (TopPid :> ProcRec(None, TopTargs, TRUE))
    /\ jb = << >>
    /\ ext = Ext
    /\ viewer = ""

(***************************************************************************)
(* The async body, from await point to await point                         *)
(***************************************************************************)
\* JobServer::setup: an own jobserver creates J-1 tokens and releases them
Setup(p) ==
    LET P == pr[p] IN
    /\ P.pc = "setup"
    /\ IF P.top /\ Own
       THEN /\ pipe' = pipe + (J - 1)
            /\ Upd(p, [P EXCEPT !.pc = "p1"])
       ELSE /\ Upd(p, [P EXCEPT !.pc = "p1"])
            /\ UNCHANGED pipe
    /\ UNCHANGED <<cpipe, world, jb, ext, viewer>>

\* pass 1 loop head
P1Head(p) ==
    LET P == pr[p] IN
    /\ P.pc = "p1" /\ P.md = "run"
    /\ Upd(p, IF P.i > Len(P.targs) THEN [P EXCEPT !.pc = "p2"]
              ELSE [P EXCEPT !.pc = "p1e", !.et = "start"])
    /\ UNCHANGED <<pipe, cpipe, world, jb, ext, viewer>>

\* may the body go to sleep now?  wait_for polls the job futures too: every
\* finished job's handler has run before both sides are pending
BgPolled(P) == P.pc \in {"p1e", "p2w", "drain"}
CanPend(P)  == ~BgPolled(P) \/ P.unh = {}

\* what happens when ensure_token_or_cheat completes
AfterEnsure(P) ==
    IF P.pc = "p1e" THEN [P EXCEPT !.pc = "p1c", !.et = "", !.want = FALSE, !.tm = "none"]
    ELSE IF P.pc = "xe" THEN [P EXCEPT !.pc = "ret", !.et = "", !.want = FALSE, !.tm = "none"]
    ELSE \* p2e: try_lock again
         [P EXCEPT !.pc = "p2t", !.et = "", !.want = FALSE, !.tm = "none"]

\* ensure_token_or_cheat (jobserver.rs:752-813) + EnsureToken::poll (:999-1035)
Ensure(p) ==
    LET P == pr[p] IN
    /\ P.pc \in {"p1e", "p2e", "xe"} /\ P.md = "run"
    /\ CASE P.et = "start" ->
              IF P.my >= 1 THEN Upd(p, AfterEnsure(P))
              ELSE IF Running(P)
                   THEN \* a fresh EnsureToken is polled: no token, waker registered
                        CanPend(P) /\ Upd(p, [P EXCEPT !.et = "inner", !.want = TRUE, !.md = "pend"])
                   ELSE Upd(p, [P EXCEPT !.et = "sel0"])
         [] P.et = "inner" ->
              IF P.my >= 1 THEN Upd(p, [P EXCEPT !.et = "sel0", !.want = FALSE])
              ELSE CanPend(P) /\ Upd(p, [P EXCEPT !.want = TRUE, !.md = "pend"])
         [] P.et = "sel0" ->
              \* a New EnsureToken asserts my_tokens == 1 when it finds a token
              IF P.my >= 2 THEN Panic(p)
              ELSE IF P.my = 1 THEN Upd(p, AfterEnsure(P))
              ELSE CanPend(P) /\ Upd(p, [P EXCEPT !.et = "sel", !.want = TRUE, !.tm = "armed", !.md = "pend"])
         [] P.et = "sel" ->
              IF P.my >= 1 THEN Upd(p, AfterEnsure(P))
              ELSE IF P.tm = "fired"
                   THEN \* timeout: cheat if the viewer is following my target
                        IF Cheating /\ P.par # None /\ viewer = jb[P.par].t
                        THEN Upd(p, AfterEnsure([P EXCEPT !.my = 1, !.ch = @ + 1]))
                        ELSE Upd(p, [P EXCEPT !.et = "start", !.want = FALSE, !.tm = "none"])
                   ELSE CanPend(P) /\ Upd(p, [P EXCEPT !.want = TRUE, !.md = "pend"])
    /\ UNCHANGED <<pipe, cpipe, world, jb, ext, viewer>>

\* JobServerHandle::start: assert my_tokens == 1, destroy it, fork
StartJob(P, p, t) ==
    [P EXCEPT !.my = 0, !.jobs = @ \cup {p \o <<t>>}]

\* consider the next command-line target (builder.rs:751-806)
P1Consider(p) ==
    LET P == pr[p]
        t == P.targs[P.i]
        nxt == [P EXCEPT !.i = @ + 1, !.pc = "p1"]
    IN
    /\ P.pc = "p1c" /\ P.md = "run"
    /\ IF P.err # 0 /\ ~Keep THEN
          /\ Upd(p, [P EXCEPT !.pc = "p2"]) /\ UNCHANGED jb
       ELSE IF t \in ext THEN
          /\ Upd(p, [nxt EXCEPT !.queue = Append(@, t)]) /\ UNCHANGED jb
       ELSE IF t \in Clean THEN
          /\ Upd(p, nxt) /\ UNCHANGED jb
       ELSE IF P.my # 1 THEN Panic(p) /\ UNCHANGED jb
       ELSE /\ pr' = [pr EXCEPT ![p] = StartJob(nxt, p, t)]
            /\ jb' = [c \in DOMAIN jb \cup {p \o <<t>>} |-> IF c = p \o <<t>> THEN JobRec(t, p) ELSE jb[c]]
    /\ UNCHANGED <<pipe, cpipe, world, ext, viewer>>

\* pass 2 loop head (builder.rs:816)
P2Head(p) ==
    LET P == pr[p] IN
    /\ P.pc = "p2" /\ P.md = "run"
    /\ Upd(p, IF P.queue = << >> /\ ~Running(P) THEN [P EXCEPT !.pc = "drain"]
              ELSE [P EXCEPT !.pc = "p2w"])
    /\ UNCHANGED <<pipe, cpipe, world, jb, ext, viewer>>

\* AllJobsDone::poll (jobserver.rs:923-972), including the top-level self check
WaitAll(p) ==
    LET P == pr[p]
        r1 == RelTok(P.my, P.ch, IF P.my >= 2 THEN P.my - 1 ELSE 0)      \* release down to one
        P1 == [P EXCEPT !.my = r1.my, !.ch = r1.ch]
    IN
    /\ P.pc = "p2w" /\ P.md = "run"
    /\ IF ~Running(P) THEN
          IF P.top /\ Own THEN
             \* test_tokens: release mine, drain both pipes, compare, write the tokens back
             LET r2 == RelTok(P1.my, P1.ch, IF P1.my >= 1 THEN 1 ELSE 0)
                 tokens == pipe + r1.shared + r2.shared
             IN IF tokens - cpipe # J
                THEN /\ ErrExit(p, 1)
                     /\ pipe' = 0 /\ cpipe' = 0
                ELSE /\ Upd(p, [P1 EXCEPT !.my = r2.my, !.ch = r2.ch, !.pc = "p2a"])
                     /\ pipe' = tokens /\ cpipe' = 0
          ELSE /\ Upd(p, [P1 EXCEPT !.pc = "p2a"])
               /\ pipe' = pipe + r1.shared /\ UNCHANGED cpipe
       ELSE
          \* children remain: give up my own token too and wait
          LET r2 == RelTok(P1.my, P1.ch, IF P1.my >= 1 THEN 1 ELSE 0) IN
          /\ CanPend(P)
          /\ Upd(p, [P1 EXCEPT !.my = r2.my, !.ch = r2.ch, !.md = "pend"])
          /\ pipe' = pipe + r1.shared + r2.shared /\ UNCHANGED cpipe
    /\ UNCHANGED <<world, jb, ext, viewer>>

\* after wait_all: error check, next queued target, try_lock (builder.rs:820-834)
P2After(p) ==
    LET P == pr[p] IN
    /\ P.pc = "p2a" /\ P.md = "run"
    /\ Upd(p, IF P.err # 0 /\ ~Keep THEN [P EXCEPT !.pc = "drain"]
              ELSE IF P.queue = << >> THEN [P EXCEPT !.pc = "p2"]
              ELSE IF FixP2 /\ P.my = 0
                   THEN \* repaired: get a token back before using or giving up one
                        [P EXCEPT !.cur = Head(P.queue), !.queue = Tail(P.queue), !.pc = "p2e", !.et = "start"]
              ELSE [P EXCEPT !.cur = Head(P.queue), !.queue = Tail(P.queue), !.pc = "p2t"])
    /\ UNCHANGED <<pipe, cpipe, world, jb, ext, viewer>>

\* try_lock of the queued target
P2Try(p) ==
    LET P == pr[p] IN
    /\ P.pc = "p2t" /\ P.md = "run"
    /\ Upd(p, IF P.cur \in ext THEN [P EXCEPT !.pc = "p2sl", !.tm = "armed", !.md = "pend"]
              ELSE [P EXCEPT !.pc = "p2s"])
    /\ UNCHANGED <<pipe, cpipe, world, jb, ext, viewer>>

\* back-off sleep over, `waiting`, release_mine (asserts my_tokens >= 1)
P2Release(p) ==
    LET P == pr[p] IN
    /\ P.pc = "p2sl" /\ P.md = "run" /\ P.tm = "fired"
    /\ IF P.my < 1 THEN Panic(p) /\ UNCHANGED pipe
       ELSE LET r == RelTok(P.my, P.ch, 1) IN
            /\ Upd(p, [P EXCEPT !.my = r.my, !.ch = r.ch, !.tm = "none", !.pc = "p2lk"])
            /\ pipe' = pipe + r.shared
    /\ UNCHANGED <<cpipe, world, jb, ext, viewer>>

\* F_SETLKW: the whole process blocks until the other invocation releases the lock
P2Locked(p) ==
    LET P == pr[p] IN
    /\ P.pc = "p2lk" /\ P.cur \notin ext
    /\ Upd(p, [P EXCEPT !.pc = "p2e", !.et = "start"])
    /\ UNCHANGED <<pipe, cpipe, world, jb, ext, viewer>>

\* start the job of the queued target
P2Start(p) ==
    LET P == pr[p]
        t == P.cur
        nxt == [P EXCEPT !.pc = "p2", !.cur = ""]
    IN
    /\ P.pc = "p2s" /\ P.md = "run"
    /\ IF t \in Clean THEN Upd(p, nxt) /\ UNCHANGED jb
       ELSE IF P.my # 1 THEN Panic(p) /\ UNCHANGED jb
       ELSE /\ pr' = [pr EXCEPT ![p] = StartJob(nxt, p, t)]
            /\ jb' = [c \in DOMAIN jb \cup {p \o <<t>>} |-> IF c = p \o <<t>> THEN JobRec(t, p) ELSE jb[c]]
    /\ UNCHANGED <<pipe, cpipe, world, ext, viewer>>

\* job_futures.fold: wait for the remaining completion handlers
Drain(p) ==
    LET P == pr[p] IN
    /\ P.pc = "drain" /\ P.md = "run"
    /\ IF P.jobs = {} /\ P.unh = {}
       THEN \* builder.rs, end of run(): never exit without a token the parent accounts for
            Upd(p, IF FixExit /\ ~(P.top /\ Own) /\ P.my = 0
                   THEN [P EXCEPT !.pc = "xe", !.et = "start"] ELSE [P EXCEPT !.pc = "ret"])
       ELSE P.unh = {} /\ Upd(p, [P EXCEPT !.md = "pend"])
    /\ UNCHANGED <<pipe, cpipe, world, jb, ext, viewer>>

\* a completion handler: records the job's result (only where job_futures is polled)
Handle(p, c) ==
    LET P == pr[p] IN
    /\ P.md = "run" /\ BgPolled(P) /\ c \in P.unh
    /\ Upd(p, [P EXCEPT !.unh = @ \ {c}, !.err = IF jb[c].rv # 0 THEN 1 ELSE @])
    /\ jb' = [d \in DOMAIN jb \ {c} |-> jb[d]]
    /\ UNCHANGED <<pipe, cpipe, world, ext, viewer>>

\* force_return_tokens (jobserver.rs:486-529) and exit
Return(p) ==
    LET P == pr[p]
        c1 == CreateTok(P.my, P.ch, Cardinality(P.jobs))
        r  == RelTok(c1.my, c1.ch, IF c1.my >= 1 THEN c1.my - 1 ELSE 0)
    IN
    /\ P.pc = "ret" /\ P.md = "run"
    /\ IF r.ch > r.my \/ r.ch > 1 THEN Panic(p) /\ UNCHANGED <<pipe, cpipe>>
       ELSE /\ pipe' = pipe + r.shared
            /\ cpipe' = cpipe + r.ch
            /\ Upd(p, [P EXCEPT !.my = r.my - r.ch, !.ch = 0, !.ret = (r.ch > 0), !.jobs = {},
                                !.pc = "done", !.rc = P.err])
    /\ UNCHANGED <<world, jb, ext, viewer>>

(***************************************************************************)
(* block_on between two polls of the body                                  *)
(***************************************************************************)
\* timers that are due and one token waiter are woken without I/O
Wake(p) ==
    LET P == pr[p] IN
    /\ P.md = "pend" /\ P.pc # "done"
    /\ P.tm = "fired" \/ (P.my >= 1 /\ P.want)
    /\ Upd(p, [P EXCEPT !.md = "run", !.want = IF P.my >= 1 THEN FALSE ELSE @])
    /\ UNCHANGED <<pipe, cpipe, world, jb, ext, viewer>>

ReadyJobs(P) == {c \in P.jobs : jb[c].st = "exited"}

\* a fixed order of the ready job fds (fd numbers grow with creation; any order is
\* reachable through interleaving of the exits, so one order per ready set suffices)
RECURSIVE SeqOf(_)
SeqOf(S) == IF S = {} THEN << >> ELSE LET x == CHOOSE x \in S : TRUE IN <<x>> \o SeqOf(S \ {x})

Select(p) ==
    LET P == pr[p]
        rj == ReadyJobs(P)
        rt == P.want /\ pipe > 0
        js == SeqOf(rj)
        fds == IF rt THEN (IF TokFirst THEN <<TokFd>> \o js ELSE js \o <<TokFd>>) ELSE js
    IN
    /\ P.md = "pend" /\ P.pc # "done"
    /\ ~(P.tm = "fired" \/ (P.my >= 1 /\ P.want))
    /\ IF P.jobs = {} /\ ~P.want /\ P.tm = "none"
       THEN ErrExit(p, 1)                                   \* "JobServer deadlock"
       ELSE /\ fds # << >>
            /\ Upd(p, [P EXCEPT !.md = "hand", !.fds = fds])
    /\ UNCHANGED <<pipe, cpipe, world, jb, ext, viewer>>

\* the timer expires (select timeout, or the sleep when there is no fd at all)
TimerFire(p) ==
    LET P == pr[p] IN
    /\ P.md = "pend" /\ P.tm = "armed"
    /\ Upd(p, [P EXCEPT !.tm = "fired"])
    /\ UNCHANGED <<pipe, cpipe, world, jb, ext, viewer>>

HandleFd(p) ==
    LET P == pr[p]
        fd == Head(P.fds)
        rest == [P EXCEPT !.fds = Tail(P.fds), !.md = IF Len(P.fds) = 1 THEN "run" ELSE "hand"]
    IN
    /\ P.md = "hand"
    /\ IF fd = TokFd THEN
          IF P.my >= 1 THEN \* a job finished in this wake-up already returned a token
             /\ Upd(p, rest) /\ UNCHANGED <<pipe, cpipe, jb>>
          ELSE IF pipe > 0 THEN \* read it; `break`: the other ready fds wait for the next select
             /\ pipe' = pipe - 1
             /\ Upd(p, [P EXCEPT !.my = 1, !.want = FALSE, !.fds = << >>, !.md = "run"])
             /\ UNCHANGED <<cpipe, jb>>
          ELSE \* stolen by another process
             /\ Upd(p, rest) /\ UNCHANGED <<pipe, cpipe, jb>>
       ELSE
          \* child exit: eat a cheat byte, or re-create the token and share the surplus
          /\ IF cpipe > 0 THEN
                /\ cpipe' = cpipe - 1 /\ UNCHANGED pipe
                /\ Upd(p, [rest EXCEPT !.jobs = @ \ {fd}, !.unh = @ \cup {fd}])
             ELSE
                LET c1 == CreateTok(P.my, P.ch, 1)
                    r  == RelTok(c1.my, c1.ch, IF c1.my >= 1 THEN c1.my - 1 ELSE 0)
                IN /\ pipe' = pipe + r.shared /\ UNCHANGED cpipe
                   /\ Upd(p, [rest EXCEPT !.my = r.my, !.ch = r.ch, !.jobs = @ \ {fd}, !.unh = @ \cup {fd}])
          /\ UNCHANGED jb
    /\ UNCHANGED <<world, ext, viewer>>

(***************************************************************************)
(* .do scripts                                                             *)
(***************************************************************************)
JobCall(c) ==
    LET B == jb[c]
        q == c \o <<B.k>>
    IN
    /\ B.st = "run" /\ B.kid = None /\ B.k <= Len(Kids[B.t])
    /\ jb' = [jb EXCEPT ![c].kid = q]
    /\ pr' = [x \in DOMAIN pr \cup {q} |-> IF x = q THEN ProcRec(c, Kids[B.t][B.k], FALSE) ELSE pr[x]]
    /\ UNCHANGED <<pipe, cpipe, world, ext, viewer>>

JobResume(c) ==
    LET B == jb[c] IN
    /\ B.st = "run" /\ B.kid # None /\ pr[B.kid].pc = "done"
    /\ jb' = [jb EXCEPT ![c] = IF pr[B.kid].rc # 0
                                THEN [B EXCEPT !.kid = None, !.st = "exited", !.rv = pr[B.kid].rc]   \* sh -e
                                ELSE [B EXCEPT !.kid = None, !.k = @ + 1]]
    /\ pr' = [x \in DOMAIN pr \ {B.kid} |-> pr[x]]
    /\ UNCHANGED <<pipe, cpipe, world, ext, viewer>>

JobExit(c) ==
    LET B == jb[c] IN
    /\ B.st = "run" /\ B.kid = None /\ B.k > Len(Kids[B.t])
    /\ jb' = [jb EXCEPT ![c].st = "exited", ![c].rv = IF B.t \in Fail THEN 1 ELSE 0]
    /\ viewer' = IF viewer = B.t THEN "" ELSE viewer
    /\ UNCHANGED <<pipe, cpipe, world, pr, ext>>

(***************************************************************************)
(* Environment                                                             *)
(***************************************************************************)
ExtRelease(t) ==
    /\ t \in ext /\ ext' = ext \ {t}
    /\ UNCHANGED <<pipe, cpipe, world, pr, jb, viewer>>

ViewerMove(t) ==
    /\ Cheating /\ viewer # t
    /\ t = "" \/ \E c \in DOMAIN jb : jb[c].t = t /\ jb[c].st = "run"
    /\ viewer' = t
    /\ UNCHANGED <<pipe, cpipe, world, pr, jb, ext>>

WorldTake == /\ ~Own /\ world < MaxWorld /\ pipe > 0
             /\ pipe' = pipe - 1 /\ world' = world + 1
             /\ UNCHANGED <<cpipe, pr, jb, ext, viewer>>
WorldPut  == /\ world > 0 /\ pipe' = pipe + 1 /\ world' = world - 1
             /\ UNCHANGED <<cpipe, pr, jb, ext, viewer>>

SetupA      == \E p \in DOMAIN pr : Setup(p)
P1HeadA     == \E p \in DOMAIN pr : P1Head(p)
EnsureA     == \E p \in DOMAIN pr : Ensure(p)
P1ConsiderA == \E p \in DOMAIN pr : P1Consider(p)
P2HeadA     == \E p \in DOMAIN pr : P2Head(p)
WaitAllA    == \E p \in DOMAIN pr : WaitAll(p)
P2AfterA    == \E p \in DOMAIN pr : P2After(p)
P2TryA      == \E p \in DOMAIN pr : P2Try(p)
P2ReleaseA  == \E p \in DOMAIN pr : P2Release(p)
P2LockedA   == \E p \in DOMAIN pr : P2Locked(p)
P2StartA    == \E p \in DOMAIN pr : P2Start(p)
DrainA      == \E p \in DOMAIN pr : Drain(p)
HandleA     == \E p \in DOMAIN pr : \E c \in pr[p].unh : Handle(p, c)
ReturnA     == \E p \in DOMAIN pr : Return(p)
WakeA       == \E p \in DOMAIN pr : Wake(p)
SelectA     == \E p \in DOMAIN pr : Select(p)
TimerFireA  == \E p \in DOMAIN pr : TimerFire(p)
HandleFdA   == \E p \in DOMAIN pr : HandleFd(p)
JobCallA    == \E c \in DOMAIN jb : JobCall(c)
JobResumeA  == \E c \in DOMAIN jb : JobResume(c)
JobExitA    == \E c \in DOMAIN jb : JobExit(c)
ExtReleaseA == \E t \in Targets : ExtRelease(t)
ViewerMoveA == \E t \in Targets \cup {""} : ViewerMove(t)

ProcStep ==
    \/ SetupA \/ P1HeadA \/ EnsureA \/ P1ConsiderA \/ P2HeadA \/ WaitAllA \/ P2AfterA \/ P2TryA
    \/ P2ReleaseA \/ P2LockedA \/ P2StartA \/ DrainA \/ HandleA \/ ReturnA
    \/ WakeA \/ SelectA \/ TimerFireA \/ HandleFdA
    \/ JobCallA \/ JobResumeA \/ JobExitA

EnvStep == ExtReleaseA \/ ViewerMoveA \/ WorldTake \/ WorldPut

Next == ProcStep \/ EnvStep
Spec == Init /\ [][Next]_vars

(***************************************************************************)
(* Properties (C08, C09)                                                   *)
(***************************************************************************)
Contrib(p) == LET P == pr[p] IN
              IF P.ret THEN 0 ELSE P.my - P.ch - (IF HasPar(P) THEN 1 ELSE 0)

\* jobs whose token is accounted as "held by the script" (from start to reap)
HeldJobs == {c \in DOMAIN jb : jb[c].par \in DOMAIN pr /\ c \in pr[jb[c].par].jobs}

\* before Setup the own top level has not created its J-1 tokens yet
Pending == IF Own /\ pr[TopPid].pc = "setup" THEN J - 1 ELSE 0

Conservation ==
    pipe - cpipe + world + Cardinality(HeldJobs) + MapThenSumSet(Contrib, DOMAIN pr) + Pending
        + (IF Own THEN 0 ELSE 1)          \* the token make lends to the top-level redo it runs
        = J

MaxWork == Cardinality({c \in DOMAIN jb : Working(c)}) <= J + (IF Cheating THEN 1 ELSE 0)

NoPanic == \A p \in DOMAIN pr : pr[p].rc # 101

\* a redo process ends holding exactly its own token, or has written its compensation byte
ExitBalanced == \A p \in DOMAIN pr :
    (pr[p].pc = "done" /\ pr[p].rc \notin {101} /\ HasPar(pr[p])) => (pr[p].ret \/ (pr[p].my = 1 /\ pr[p].ch = 0))

Finished == pr[TopPid].pc = "done"

\* when the top level is done everything it took is back
QuiescentExact ==
    (Finished /\ pr[TopPid].rc # 101 /\ DOMAIN jb = {}) =>
        IF Own THEN pipe + pr[TopPid].my - pr[TopPid].ch - cpipe = J
        ELSE pipe + world - cpipe = J - 1 /\ (pr[TopPid].ret \/ (pr[TopPid].my = 1 /\ pr[TopPid].ch = 0))

AllSucceedExit0 == (Finished /\ Fail = {}) => pr[TopPid].rc = 0

\* some step of the build is always possible until the top level is done
NotHung == Finished \/ ENABLED ProcStep \/ ext # {}

TokensSane == pipe >= 0 /\ cpipe >= 0 /\ \A p \in DOMAIN pr : pr[p].my >= 0 /\ pr[p].ch >= 0

=============================================================================
