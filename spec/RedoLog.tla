------------------------------- MODULE RedoLog -------------------------------
(***************************************************************************)
(* Per-target log files and the recursive, lock-aware log follower of      *)
(* redo-log (src/bin/redo/log.rs:140-393), C18 stream part.                *)
(*                                                                         *)
(* Writers: the script of a target appends its stderr lines to the         *)
(* target's log; the redo-ifchange it runs appends `do c` when it starts   *)
(* building a dependency c (or `waiting c` when somebody else is building  *)
(* it) and `done c` when that build has finished.  A dependency may be     *)
(* named by an alias spelling (../x for x).  The target lock is held while *)
(* the script runs.                                                        *)
(*                                                                         *)
(* Follower (catlog): a stack of frames, one per log being read; a record  *)
(* `do c` / `waiting c` is echoed once (set `already`, keyed by the        *)
(* cleaned name) and the follower descends into c's log at once; it       *)
(* leaves a log when it has read everything and found the target unlocked  *)
(* at the check before its last read.  Text lines are echoed; when         *)
(* something was echoed since the last text line of this frame, a          *)
(* `resumed t` marker comes first.                                         *)
(*                                                                         *)
(* The constant NormKey selects how catlog recognises a log it has already *)
(* shown: by the cleaned name (repaired) or by the raw spelling (pinned).  *)
(* FlushPartial selects whether an unterminated last line is echoed        *)
(* through the log stream (with its own `resumed` marker) or written       *)
(* behind the stream's back.                                               *)
(***************************************************************************)
EXTENDS Naturals, Sequences, FiniteSets, TLC

CONSTANTS
    Targets,     \* set of target names
    Top,         \* the target the command builds
    Prog,        \* [Targets -> Seq(step)], step = [op |-> "line", n |-> k, nl |-> BOOLEAN] | [op |-> "call", cs |-> Seq(spelling)]
    Norm,        \* [spelling -> target]: the file a spelling denotes
    Follow,      \* TRUE: the follower runs while the build runs (live output); FALSE: afterwards (redo-log -r)
    NormKey,     \* TRUE: `already` is keyed by the cleaned name at the entry of catlog too
    FlushPartial \* TRUE: an unterminated last line is echoed through the stream

Spellings == DOMAIN Norm

VARIABLES
    logs,     \* [Targets -> Seq(entry)], entry = [k, t, n, nl]
    st,       \* [Targets -> "new" | "run" | "done"]
    pc,       \* [Targets -> position in Prog]
    wait,     \* [Targets -> spellings whose `done` this target's redo-ifchange still has to log]
    held,     \* targets whose lock is held (being built)
    frames,   \* follower stack: Seq([t, pos, wasLocked, intr, head])
    already,  \* names the follower has shown
    out,      \* what the follower printed: Seq([k, t, n])
    fdone     \* follower finished

vars == <<logs, st, pc, wait, held, frames, already, out, fdone>>

Entry(k, t, n, nl) == [k |-> k, t |-> t, n |-> n, nl |-> nl]

Init ==
    /\ logs = [t \in Targets |-> << >>]
    /\ st = [t \in Targets |-> IF t = Top THEN "run" ELSE "new"]
    /\ pc = [t \in Targets |-> 1]
    /\ wait = [t \in Targets |-> << >>]
    /\ held = {Top}
    /\ frames = << >> /\ already = {} /\ out = << >> /\ fdone = FALSE

BuildOver == \A t \in Targets : st[t] # "run"

(***************************************************************************)
(* Writers                                                                 *)
(***************************************************************************)
\* redo-ifchange returns only when what it waits for has been built by the other builder
Blocked(t) == \E i \in 1..Len(logs[t]) : logs[t][i].k = "waiting" /\ st[Norm[logs[t][i].t]] # "done"

\* the script of t performs its next step
ScriptStep(t) ==
    /\ st[t] = "run" /\ wait[t] = << >> /\ ~Blocked(t) /\ pc[t] <= Len(Prog[t])
    /\ LET s == Prog[t][pc[t]] IN
       IF s.op = "line" THEN
          /\ logs' = [logs EXCEPT ![t] = Append(@, Entry("line", t, s.n, s.nl))]
          /\ pc' = [pc EXCEPT ![t] = @ + 1]
          /\ UNCHANGED <<st, wait, held>>
       ELSE \* redo-ifchange cs: `do c` for what it starts, `waiting c` for what somebody else builds
          LET F[i \in 0..Len(s.cs)] ==
                IF i = 0 THEN [lg |-> logs[t], stt |-> st, hl |-> held, w |-> << >>]
                ELSE LET c == s.cs[i]  f == Norm[c]  prev == F[i-1] IN
                     IF prev.stt[f] = "new"
                     THEN [lg |-> Append(prev.lg, Entry("do", c, 0, TRUE)), stt |-> [prev.stt EXCEPT ![f] = "run"],
                           hl |-> prev.hl \cup {f}, w |-> Append(prev.w, c)]
                     ELSE IF prev.stt[f] = "run"
                     THEN [lg |-> Append(prev.lg, Entry("waiting", c, 0, TRUE)), stt |-> prev.stt, hl |-> prev.hl, w |-> prev.w]
                     ELSE prev
              r == F[Len(s.cs)]
          IN /\ logs' = [logs EXCEPT ![t] = r.lg]
             /\ st' = r.stt /\ held' = r.hl
             /\ wait' = [wait EXCEPT ![t] = r.w]
             /\ pc' = [pc EXCEPT ![t] = @ + 1]
    /\ UNCHANGED <<frames, already, out, fdone>>

\* a dependency t's redo-ifchange started has finished: `done c`
ChildDone(t) ==
    /\ wait[t] # << >>
    /\ \E i \in 1..Len(wait[t]) :
          LET c == wait[t][i] IN
          /\ st[Norm[c]] = "done"
          /\ logs' = [logs EXCEPT ![t] = Append(@, Entry("done", c, 0, TRUE))]
          /\ wait' = [wait EXCEPT ![t] = SubSeq(@, 1, i - 1) \o SubSeq(@, i + 1, Len(@))]
    /\ UNCHANGED <<st, pc, held, frames, already, out, fdone>>

\* the script of t ends; its result is recorded and the lock released
ScriptEnd(t) ==
    /\ st[t] = "run" /\ wait[t] = << >> /\ ~Blocked(t) /\ pc[t] > Len(Prog[t])
    /\ st' = [st EXCEPT ![t] = "done"]
    /\ held' = held \ {t}
    /\ UNCHANGED <<logs, pc, wait, frames, already, out, fdone>>

(***************************************************************************)
(* The follower                                                            *)
(***************************************************************************)
Frame(t) == [t |-> t, pos |-> 1, wasLocked |-> Norm[t] \in held, intr |-> 0, head |-> << >>, written |-> 0]
Key(t) == IF NormKey THEN Norm[t] ELSE t

FStart ==
    /\ frames = << >> /\ ~fdone /\ out = << >>
    /\ Follow \/ BuildOver
    /\ already' = {Key(Top)}
    /\ frames' = <<Frame(Top)>>
    /\ out' = <<[k |-> "do", t |-> Top, n |-> 0]>>
    /\ UNCHANGED <<logs, st, pc, wait, held, fdone>>

TopF == frames[Len(frames)]
SetTop(f) == [frames EXCEPT ![Len(frames)] = f]

\* read the next entry of the log on top of the stack
FRead ==
    /\ frames # << >>
    /\ LET f == TopF
           lg == logs[Norm[f.t]]
       IN
       IF f.pos <= Len(lg) THEN
          LET e == lg[f.pos]
              nf == [f EXCEPT !.pos = @ + 1]
          IN
          IF e.k = "line" THEN
             IF ~e.nl THEN \* unterminated: kept in the partial-line buffer
                /\ frames' = SetTop([nf EXCEPT !.head = Append(@, e)])
                /\ UNCHANGED <<already, out>>
             ELSE
                /\ out' = out \o (IF f.intr # 0 THEN <<[k |-> "resumed", t |-> f.t, n |-> 0]>> ELSE << >>)
                              \o [i \in 1..Len(f.head) |-> [k |-> "line", t |-> f.head[i].t, n |-> f.head[i].n]]
                              \o <<[k |-> "line", t |-> e.t, n |-> e.n]>>
                /\ frames' = SetTop([nf EXCEPT !.intr = 0, !.head = << >>, !.written = @ + 1])
                /\ UNCHANGED already
          ELSE IF e.k \in {"do", "waiting"} THEN
             LET fix == Norm[e.t]
                 shown == fix \in already
                 o1 == IF shown THEN out ELSE Append(out, [k |-> "do", t |-> e.t, n |-> 0])
                 nf1 == IF shown THEN nf ELSE [nf EXCEPT !.intr = @ + 1, !.written = @ + 1]
             IN \* descend (catlog returns at once when the key is already there)
                IF Key(e.t) \in already
                THEN /\ out' = o1 /\ frames' = SetTop(nf1) /\ already' = already \cup {fix}
                ELSE /\ out' = o1
                     /\ already' = already \cup {Key(e.t)}
                     /\ frames' = Append(SetTop(nf1), Frame(e.t))
          ELSE \* done
             /\ out' = Append(out, [k |-> "done", t |-> e.t, n |-> 0])
             /\ frames' = SetTop([nf EXCEPT !.written = @ + 1])
             /\ UNCHANGED already
       ELSE \* nothing more to read
          IF Follow /\ f.wasLocked THEN
             \* re-check the lock, sleep, read again
             /\ frames' = SetTop([f EXCEPT !.wasLocked = Norm[f.t] \in held])
             /\ UNCHANGED <<already, out>>
          ELSE \* leave this log
             LET flush == IF f.head = << >> THEN << >>
                          ELSE (IF FlushPartial /\ f.intr # 0 THEN <<[k |-> "resumed", t |-> f.t, n |-> 0]>> ELSE << >>)
                               \o [i \in 1..Len(f.head) |-> [k |-> IF FlushPartial THEN "line" ELSE "stray", t |-> f.head[i].t, n |-> f.head[i].n]]
                 rest == SubSeq(frames, 1, Len(frames) - 1)
                 w == f.written + (IF FlushPartial /\ f.head # << >> THEN 1 ELSE 0)
             IN /\ out' = out \o flush
                /\ already' = already \cup {Norm[f.t]}
                /\ frames' = IF rest = << >> THEN rest
                             ELSE [rest EXCEPT ![Len(rest)].intr = @ + w, ![Len(rest)].written = @ + w]
    /\ fdone' = (frames' = << >>)
    /\ UNCHANGED <<logs, st, pc, wait, held>>

Next ==
    \/ \E t \in Targets : ScriptStep(t) \/ ChildDone(t) \/ ScriptEnd(t)
    \/ FStart \/ FRead

Spec == Init /\ [][Next]_vars

(***************************************************************************)
(* C18                                                                     *)
(***************************************************************************)
Finished == fdone /\ BuildOver

LinesOf(t) == {Prog[t][i].n : i \in {i \in 1..Len(Prog[t]) : Prog[t][i].op = "line"}}
OutIdx(t, n) == {i \in 1..Len(out) : out[i].k = "line" /\ out[i].t = t /\ out[i].n = n}

\* every line a script wrote is shown exactly once
Once == Finished => \A t \in Targets : \A n \in LinesOf(t) : st[t] = "done" => Cardinality(OutIdx(t, n)) = 1
\* ... in the order it was written
InOrder == Finished => \A t \in Targets : \A i, j \in 1..Len(out) :
              (out[i].k = "line" /\ out[j].k = "line" /\ out[i].t = t /\ out[j].t = t /\ i < j) => out[i].n < out[j].n
\* ... under the right target: the last `do` / `resumed` record before it names its target
CurAt(i) == LET js == {j \in 1..(i - 1) : out[j].k \in {"do", "resumed"}} IN
            IF js = {} THEN "" ELSE Norm[out[CHOOSE j \in js : \A x \in js : x <= j].t]
Attributed == \A i \in 1..Len(out) : out[i].k = "line" => CurAt(i) = out[i].t
\* nothing is written behind the back of the stream
NoStray == \A i \in 1..Len(out) : out[i].k # "stray"
\* each target is announced once
DoOnce == \A t \in Targets : Cardinality({i \in 1..Len(out) : out[i].k = "do" /\ Norm[out[i].t] = t}) <= 1
\* the follower does not get stuck while the build is over
FollowerEnds == (BuildOver /\ ~fdone) => ENABLED (FStart \/ FRead)

\* What the follower relies on: a log it has opened only ever grows.  (A new build of the same target does not
\* rewrite that file: builder.rs replaces .redo/log.<id> by a new file, atomically, before the job starts; a reader
\* of the previous build's log keeps its complete, unchanged file.  Bound to the code by logcheck.append_only_part.)
AppendOnly == [][\A t \in Targets : Len(logs'[t]) >= Len(logs[t]) /\ SubSeq(logs'[t], 1, Len(logs[t])) = logs[t]]_vars
=============================================================================
