------------------------------- MODULE MC_Exec -------------------------------
(* every first line made of up to MaxTok tokens: the interpreter rule evaluated and exported *)
EXTENDS RedoExec, Json, TLC
CONSTANTS MaxTok
Chars(str) == CASE str = "#!" -> <<"#", "!">>
                [] str = "#" -> <<"#">>
                [] str = "!" -> <<"!">>
                [] str = "/bin/sh" -> <<"/", "b", "i", "n", "/", "s", "h">>
                [] str = "/usr/bin/env" -> <<"/", "u", "s", "r", "/", "b", "i", "n", "/", "e", "n", "v">>
                [] str = " " -> <<" ">>
                [] str = "\t" -> <<"\t">>
                [] str = "-e" -> <<"-", "e">>
                [] str = "sh" -> <<"s", "h">>
                [] str = "-x" -> <<"-", "x">>
Tok == {"#!", "#", "!", "/bin/sh", "/usr/bin/env", " ", "\t", "-e", "sh", "-x"}
Lines == UNION {[1..n -> Tok] : n \in 0..MaxTok}
RECURSIVE Flat(_)
Flat(ts) == IF ts = << >> THEN << >> ELSE Chars(Head(ts)) \o Flat(Tail(ts))
VARIABLE toks
Init == toks \in Lines
Next == UNCHANGED toks
Spec == Init /\ [][Next]_toks
L == Flat(toks)
Rest == <<<<"D">>, <<"1">>, <<"2">>, <<"3">>>>
NonEmpty == ProgramNonEmpty(L)
ShOrAbsolute == ProgramShOrAbsolute(L)
Kept == ArgsKept(L, Rest)
Plain == PlainIsSh(L)
Export == PrintT("@@" \o ToJson([toks |-> toks, prefix |-> Prefix(L)]))
=============================================================================
