------------------------------ MODULE RedoPaths ------------------------------
(***************************************************************************)
(* Path handling of redo-rs (C13, C15).                                    *)
(*                                                                         *)
(*  Clean      byte-level transcription of helpers::normpath               *)
(*             (helpers.rs:711-800, Rob Pike's lexical cleaning)           *)
(*  Denote     independent meaning of a path on a symlink-free tree:       *)
(*             rooted?, number of leading "..", names                      *)
(*  Render     the canonical (shortest) spelling of a meaning              *)
(*  Rel        the lexical part of state::relpath (state.rs:1322-1359)     *)
(*  Candidates the .do candidates of a target with cwd, $1 and $2, written *)
(*             from the documented rule (paths.rs:31-259, builder.rs)      *)
(*                                                                         *)
(* Paths are sequences of one-character strings.  TLC evaluates everything *)
(* for every string up to a length bound, checks the algebraic laws, and   *)
(* exports (input, expected) tables; the harness lib/funcheck.py runs the  *)
(* real functions (in-process through the `vfun` helper, redo-whichdo, and *)
(* real builds whose scripts print their arguments) on the same inputs.    *)
(***************************************************************************)
EXTENDS Naturals, Integers, Sequences, FiniteSets, TLC

Sep == "/"
END == "$"         \* stands for "no such byte" (get(i) = None)

(***************************************************************************)
(* Clean: transcription of the loop of normpath                            *)
(***************************************************************************)
At(p, i) == IF i >= 1 /\ i <= Len(p) THEN p[i] ELSE END
SepOrEnd(c) == c = END \/ c = Sep

\* position after the path element that starts at r
RECURSIVE ElemEnd(_, _)
ElemEnd(p, r) == IF r > Len(p) \/ p[r] = Sep THEN r ELSE ElemEnd(p, r + 1)

\* out.w -= 1; while out.w > dotdot && !is_separator(out[out.w]) { out.w -= 1 }     (0-based w)
RECURSIVE BackTo(_, _, _)
BackTo(out, w, dotdot) == IF w > dotdot /\ out[w + 1] # Sep THEN BackTo(out, w - 1, dotdot) ELSE w

RECURSIVE CleanLoop(_, _, _, _, _)
CleanLoop(p, rooted, r, out, dotdot) ==
    IF r > Len(p) THEN out
    ELSE IF p[r] = Sep THEN CleanLoop(p, rooted, r + 1, out, dotdot)                       \* empty element
    ELSE IF p[r] = "." /\ SepOrEnd(At(p, r + 1)) THEN CleanLoop(p, rooted, r + 1, out, dotdot)   \* . element
    ELSE IF p[r] = "." /\ At(p, r + 1) = "." /\ SepOrEnd(At(p, r + 2)) THEN                 \* .. element
         IF Len(out) > dotdot
         THEN CleanLoop(p, rooted, r + 2, SubSeq(out, 1, BackTo(out, Len(out) - 1, dotdot)), dotdot)
         ELSE IF ~rooted
         THEN LET o2 == (IF Len(out) > 0 THEN Append(out, Sep) ELSE out) \o <<".", ".">>
              IN CleanLoop(p, rooted, r + 2, o2, Len(o2))
         ELSE CleanLoop(p, rooted, r + 2, out, dotdot)
    ELSE \* real path element: add a slash if needed, copy the element
         LET o1 == IF (rooted /\ Len(out) # 1) \/ (~rooted /\ Len(out) # 0) THEN Append(out, Sep) ELSE out
             e  == ElemEnd(p, r)
         IN CleanLoop(p, rooted, e, o1 \o SubSeq(p, r, e - 1), dotdot)

Clean(p) ==
    IF p = << >> THEN <<".">>
    ELSE LET rooted == p[1] = Sep
             res == CleanLoop(p, rooted, IF rooted THEN 2 ELSE 1, IF rooted THEN <<Sep>> ELSE << >>,
                              IF rooted THEN 1 ELSE 0)
         IN IF res = << >> THEN <<".">> ELSE res

(***************************************************************************)
(* The meaning of a path                                                   *)
(***************************************************************************)
\* components between separators (possibly empty)
RECURSIVE Split(_, _, _)
Split(p, i, cur) ==
    IF i > Len(p) THEN <<cur>>
    ELSE IF p[i] = Sep THEN <<cur>> \o Split(p, i + 1, << >>)
    ELSE Split(p, i + 1, Append(cur, p[i]))
Comps(p) == SelectSeq(Split(p, 1, << >>), LAMBDA c : c # << >> /\ c # <<".">>)

RECURSIVE Walk(_, _, _, _, _)
Walk(cs, i, rooted, ups, names) ==
    IF i > Len(cs) THEN [rooted |-> rooted, ups |-> ups, names |-> names]
    ELSE IF cs[i] = <<".", ".">> THEN
         IF names # << >> THEN Walk(cs, i + 1, rooted, ups, SubSeq(names, 1, Len(names) - 1))
         ELSE IF rooted THEN Walk(cs, i + 1, rooted, ups, names)          \* /.. is /
         ELSE Walk(cs, i + 1, rooted, ups + 1, names)
    ELSE Walk(cs, i + 1, rooted, ups, Append(names, cs[i]))

Denote(p) == Walk(Comps(p), 1, p # << >> /\ p[1] = Sep, 0, << >>)

RECURSIVE JoinC(_, _)
JoinC(cs, i) == IF i > Len(cs) THEN << >>
                ELSE IF i = Len(cs) THEN cs[i] ELSE cs[i] \o <<Sep>> \o JoinC(cs, i + 1)

Render(d) ==
    LET parts == [k \in 1..d.ups |-> <<".", ".">>] \o d.names IN
    IF d.rooted THEN <<Sep>> \o JoinC(d.names, 1)
    ELSE IF parts = << >> THEN <<".">> ELSE JoinC(parts, 1)

(***************************************************************************)
(* relpath (lexical part) and re-joining                                   *)
(***************************************************************************)
\* components of a cleaned absolute path, as Path::components() yields them after the root
AbsComps(p) == Comps(Clean(p))

RECURSIVE CommonLen(_, _, _)
CommonLen(a, b, n) == IF n < Len(a) /\ n < Len(b) /\ a[n + 1] = b[n + 1] THEN CommonLen(a, b, n + 1) ELSE n

Rel(t, base) ==
    LET a == AbsComps(t)
        b == AbsComps(base)
        n == CommonLen(a, b, 0)
        parts == [k \in 1..(Len(b) - n) |-> <<".", ".">>] \o SubSeq(a, n + 1, Len(a))
    IN JoinC(parts, 1)

Join(base, rel) == base \o <<Sep>> \o rel

(***************************************************************************)
(* .do candidates (C13)                                                    *)
(***************************************************************************)
DotPositions(name) == SelectSeq([i \in 1..Len(name) |-> i], LAMBDA i : name[i] = ".")

ToStr(cs) == cs     \* (sequences of characters are printed as JSON arrays and joined by the harness)

\* candidates in the directory `level` steps above the target's directory
\* dirs: components of the target's directory (absolute), name: file name
DefaultsAt(dirs, name, level) ==
    LET dodir == SubSeq(dirs, 1, Len(dirs) - level)
        sub   == SubSeq(dirs, Len(dirs) - level + 1, Len(dirs))
        pre   == IF sub = << >> THEN << >> ELSE JoinC(sub, 1) \o <<Sep>>
        dots  == DotPositions(name)
        exts  == [k \in 1..Len(dots) |->
                    [dodir |-> dodir,
                     dofile |-> <<"d","e","f","a","u","l","t">> \o SubSeq(name, dots[k], Len(name)) \o <<".","d","o">>,
                     arg1 |-> pre \o name,
                     arg2 |-> pre \o SubSeq(name, 1, dots[k] - 1)]]
    IN exts \o <<[dodir |-> dodir, dofile |-> <<"d","e","f","a","u","l","t",".","d","o">>,
                  arg1 |-> pre \o name, arg2 |-> pre \o name]>>

RECURSIVE AllDefaults(_, _, _)
AllDefaults(dirs, name, level) ==
    IF level > Len(dirs) THEN << >> ELSE DefaultsAt(dirs, name, level) \o AllDefaults(dirs, name, level + 1)

Candidates(dirs, name) ==
    <<[dodir |-> dirs, dofile |-> name \o <<".","d","o">>, arg1 |-> name, arg2 |-> name]>>
    \o AllDefaults(dirs, name, 0)

=============================================================================
