--------------------------- MODULE RedoSysProps ---------------------------
(***************************************************************************)
(* The listed properties, formalised over RedoSys.                         *)
(* Reference semantics (Ideal, MustRun) are defined from the *program* and *)
(* the ghost history gh, never from the implementation-shaped database w.  *)
(***************************************************************************)
EXTENDS RedoSys

LastH == hist[Len(hist)]
AfterCmd == Quiet /\ hist # << >> /\ LastH.a = "cmd"
AfterOk  == AfterCmd /\ LastH.rc = 0

SetMin(S) == CHOOSE x \in S : \A y \in S : x <= y
SetMax(S) == CHOOSE x \in S : \A y \in S : x >= y

\* the user's file: written by hand, or a redo-produced file whose rule vanished and
\* which redo has since adopted as a source (deps.rs:123-135, builder.rs:142-157)
UserOwned(n) == fs[n].ex /\ (fs[n].own = "user" \/ n \in gh.src)

\* the rule redo must use for t now: first existing candidate (C13)
ChosenDo(t) ==
    LET idx == {i \in 1..Len(Cands[t]) : fs[Cands[t][i]].ex} IN
    IF idx = {} THEN "" ELSE Cands[t][SetMin(idx)]

HasRule(t) == ChosenDo(t) # "" /\ t \in DOMAIN Rules[ChosenDo(t)][DoVer(ChosenDo(t))]
RuleOps(t) == LET ops == Rules[ChosenDo(t)][DoVer(ChosenDo(t))][t] IN [i \in 1..Len(ops) |-> [ops[i] EXCEPT !.args = NormSeq(@)]]

\* a file redo may (re)produce now: not the user's, and a rule exists
Buildable(t) == t \in Plain /\ ~UserOwned(t) /\ HasRule(t)

\* output steps that leave something behind ("filedel": $3 created and deleted again; "filedir": $3 made a directory by a failing rule)
OutIdx(ops) == {i \in 1..Len(ops) : ops[i].op = "out" /\ ops[i].ch \notin {"filedel", "filedir"}}

(***************************************************************************)
(* C01: from-scratch content                                               *)
(***************************************************************************)
RECURSIVE Ideal(_)
Ideal(n) ==
    IF ~Buildable(n) THEN ReadVal(n)
    ELSE LET ops == RuleOps(n) IN
         IF OutIdx(ops) = {} THEN NoVal
         ELSE LET o == ops[SetMax(OutIdx(ops))] IN
              [n |-> n, k |-> ChosenDo(n), v |-> IF o.rc # 0 THEN o.rc ELSE DoVer(ChosenDo(n)),
               d |-> [i \in 1..Len(o.args) |-> Ideal(o.args[i])]]

\* files a from-scratch build of n consults
IdealDeps(n) ==
    IF ~Buildable(n) THEN {}
    ELSE LET ops == RuleOps(n) IN
         UNION {{ops[i].args[k] : k \in 1..Len(ops[i].args)} :
                    i \in {i \in 1..Len(ops) : ops[i].op \in {"ifchange", "watch", "out"}}}
         \cup UNION {{ops[i].args[k] : k \in 3..Len(ops[i].args)} :
                    i \in {i \in 1..Len(ops) : ops[i].op = "ifchangeif" /\ ~FromFirst(Ideal(ops[i].args[1]), ops[i].args[2])}}

RECURSIVE Clo(_, _)
Clo(S, k) == IF k = 0 THEN S ELSE Clo(S \cup UNION {IdealDeps(n) : n \in S}, k - 1)
Closure(S) == Clo(S, Cardinality(Plain))

Fresh ==
    AfterOk => \A n \in Closure({NormAt(LastH.cwd, LastH.targs[i]) : i \in 1..Len(LastH.targs)}) :
                   ReadVal(n) = Ideal(n)

(***************************************************************************)
(* C02 / C03 / C14: the reference rebuild set                              *)
(***************************************************************************)
Stamped(n) == gh.seen[n].built /\ gh.seen[n].stamped

RECURSIVE MustRun(_)
\* would bringing dependency n up to date give it a new content generation?
WillChange(n) ==
    /\ n \in Plain /\ MustRun(n)
    /\ ~Stamped(n) \/ Ideal(n) # gh.seen[n].val

\* redo may touch t: it is not the user's, and a rule exists or redo produced it
\* (a produced file whose rule vanished is re-decided once: it becomes a source)
RedoMay(t) == t \in Plain /\ ~UserOwned(t) /\ (HasRule(t) \/ gh.seen[t].built)

MustRun(t) ==
    LET sn == gh.seen[t] IN
    /\ RedoMay(t)
    /\ \/ ~sn.built                                   \* never built, or failed last time
       \/ gh.cg[t] # sn.out                           \* its file was removed (edits make it the user's)
       \/ \E d \in sn.deps :
             \/ d.n = ALWAYS
             \/ d.m = "c" /\ Exists(fs, d.n)
             \/ d.m = "m" /\ d.n # ALWAYS /\ (gh.cg[d.n] # d.g \/ WillChange(d.n))

\* no over-build: a script is started only for a target the reference says must run
\* (forced `redo` builds exempt).  Checked on every step that extends `ran`.
NoOverBuild ==
    [][(ran' # ran /\ ran' # << >> /\ cmd.kind = "ifchange" /\ ran'[Len(ran')] \notin gh.inner) => MustRun(ran'[Len(ran')])]_vars

\* no under-build: after a successful command nothing in the closure must still run
\* (redo-always targets excepted: they must run in every run)
AlwaysTarget(t) == \E d \in gh.seen[t].deps : d.n = ALWAYS
OnAlways(n) == \E m \in Closure({n}) \cap Plain : AlwaysTarget(m)
NoUnderBuild ==
    AfterOk => \A n \in Closure({NormAt(LastH.cwd, LastH.targs[i]) : i \in 1..Len(LastH.targs)}) \cap Plain :
                   OnAlways(n) \/ ~MustRun(n)

\* the dependency records of a successfully built target cover what its last build declared (its .do file, the absent
\* higher-priority candidates, what the script asked for): nothing is lost (C02, C16).
\* (Equality does not hold, and the code agrees with the specification there: the `redo-ifchange deps` that redo-unlocked
\* runs inherits REDO_TARGET of the script that asked for the uncertain target, so that script gets an extra edge to the
\* checksummed dependency - e.g. roof -> mid in program stamped2plain, where roof.do only asks for top.)
RecordedDepsCover ==
    (Quiet /\ gh.crashes = 0) => \A t \in Plain :
        (gh.seen[t].built /\ w.db[t].gen /\ ~w.db[t].ovr) =>
            {<<d.m, d.n>> : d \in gh.seen[t].deps} \subseteq {<<x.mode, x.s>> : x \in {y \in w.edges : y.t = t /\ ~y.del}}

\* at most once per run (C05, C07, C14)
\* (a target named on the command line of a forced `redo` is rebuilt by that request
\* even if a dependent already brought it up to date: one extra run, as in a serial build)
CmdOf(r) == IF r = Top THEN cmd ELSE cmd.c2
ForcedBy(r, t) == (CmdOf(r).kind = "redo" /\ t \in {NormAt(CmdOf(r).cwd, CmdOf(r).targs[i]) : i \in 1..Len(CmdOf(r).targs)})
                  \/ t \in gh.inner
Forced(t) == ForcedBy(Top, t)
\* (per top-level command when two run at the same time: each is a run of its own)
NoDupRun == \A t \in Plain : \A r \in {Top, Top2} :
               Cardinality({i \in 1..Len(ran) : ran[i] = t /\ gh.ranr[i] = r}) <= (IF ForcedBy(r, t) THEN 2 ELSE 1)

(***************************************************************************)
(* C04 / C11                                                               *)
(***************************************************************************)
\* redo itself never replaces or removes a file the user owns
NoTrample ==
    [][\A n \in Plain : (fs[n].ex /\ fs[n].own = "user" /\ fs'[n] # fs[n])
                            => (hist' # hist \/ fs'[n].own = "script")]_vars

\* a target changes, by redo's hand, only to the complete output of a script that exited 0
OnlyCompleteOutput ==
    [][\A n \in Plain : (fs'[n] # fs[n] /\ hist' = hist /\ fs'[n].own # "script")
            => \/ fs'[n].ex /\ fs'[n].own = "redo"
                   /\ \E p \in DOMAIN procs : \E j \in procs[p].jobs :
                         j.t = n /\ j.st \in {"exited", "copied"} /\ j.rv = 0 /\ fs'[n].val = j.val
                         /\ (j.std \/ j.file) /\ ~(j.std /\ j.file)
               \/ ~fs'[n].ex
                   /\ \E p \in DOMAIN procs : \E j \in procs[p].jobs :
                         j.t = n /\ j.st = "exited" /\ j.rv = 0 /\ ~j.std /\ ~j.file]_vars

\* no temporary output file of a target that was built is left behind (a stale one somebody else left beside a
\* target that was not touched is not redo's to remove)
NoTmpLeft == (Quiet /\ hist # << >> /\ LastH.a = "cmd") =>
                 \A x \in tmp : x[1] \in TmpFiles /\ x[1] \notin {LastH.ran[i] : i \in 1..Len(LastH.ran)}

(***************************************************************************)
(* C05                                                                     *)
(***************************************************************************)
FailPropagates == AfterOk => gh.fails = {}

\* transitive requesters of f according to the recorded edges
RECURSIVE Req(_, _)
Req(S, k) == IF k = 0 THEN S
             ELSE Req(S \cup {x.t : x \in {x \in w.edges : x.s \in S}}, k - 1)

NoCleanOverFailed ==
    AfterCmd => \A f \in gh.fails : \A t \in Req({f}, Cardinality(Plain)) :
        IsDirty(w, [fs |-> fs, rid |-> runid + 1, q |-> FALSE], t).v # "clean"

(***************************************************************************)
(* C06                                                                     *)
(***************************************************************************)
LiveScripts(t) == {s \in DOMAIN procs : procs[s].kind = "script" /\ procs[s].t = t /\ procs[s].pc # "done"}

\* two executions of the build script of one target never overlap
ScriptMutex == \A t \in Plain : Cardinality(LiveScripts(t)) <= 1

\* from before its script starts until its result is committed the starter holds the lock
\* of the target (or runs with REDO_UNLOCKED for a holder above it)
HoldThroughRecord ==
    \A p \in DOMAIN procs : \A j \in procs[p].jobs :
        (j.k = "self" /\ procs[p].pc # "done") =>
            (locks[j.t] = p \/ (procs[p].unl /\ locks[j.t] # NoPid))

\* while a script runs, its target is locked
ScriptUnderLock == \A t \in Plain : LiveScripts(t) # {} => locks[t] # NoPid

(***************************************************************************)
(* C12 / C09 (at this level): termination and defined exit status          *)
(***************************************************************************)
\* C10: after a kill, on a program whose rules all succeed, every build command exits 0
\* (Fresh then says its targets are right, also after later edits)
RecoversOk == (AfterCmd /\ gh.crashes > 0 /\ ~gh.crashNow) => LastH.rc = 0

ProcOrEnd == ProcStep \/ EndBuild \/ EndPar
\* some process can always move while a command is in flight (F_SETLKW on a lock that is
\* never released, or a wait for a token that never comes, shows up here)
NotHung == Quiet \/ ENABLED ProcOrEnd

NoPanic == \A p \in DOMAIN procs : procs[p].rc # 101

\* a command on a program whose requested targets lead back to a target being built
\* fails, and some job status identifies the cyclic dependency (208)
CycleReported == AfterCmd => (LastH.rc # 0 /\ 208 \in LastH.codes /\ 101 \notin LastH.codes)

(***************************************************************************)
(* Two commands at the same time (C06, C16 at the level of outcomes)       *)
(***************************************************************************)
AfterPar == Quiet /\ hist # << >> /\ LastH.a = "par"
ParCmds  == {LastH.c1, LastH.c2}
TargsOf(c) == {NormAt(c.cwd, c.targs[i]) : i \in 1..Len(c.targs)}

\* each of the two commands that exits 0 leaves its targets and everything below them as a from-scratch build would
ParFresh == AfterPar => \A c \in ParCmds : c.rc = 0 => \A n \in Closure(TargsOf(c)) : ReadVal(n) = Ideal(n)

\* a command that needed a target whose script failed while the pair ran does not exit 0 (the scripts of the
\* programs used fail deterministically)
ParFailPropagates == AfterPar => \A c \in ParCmds : c.rc = 0 => Closure(TargsOf(c)) \cap gh.fails = {}

\* (Not a property: "two redo-ifchange at the same time run a script once between them".  The command with the lower run
\* id that looks at a target the other one has just built finds changed_runid above its own run id - "changed later than
\* I started" - and builds it a second time: deps.rs `changed_runid > max_changed`.  Exercised by the pair programs and
\* confirmed by the replays; per command NoDupRun holds.)

\* nothing is left at $3 of a target that was built
ParNoTmpLeft == AfterPar => \A x \in tmp : x[1] \in TmpFiles

(***************************************************************************)
(* C17                                                                     *)
(***************************************************************************)
KnownFiles == {n \in Files : w.ids[n] # 0}
QEnv == [fs |-> fs, rid |-> runid + 1, q |-> TRUE]

TargetsSourcesPartition ==
    Quiet => LET tg == QueryOut("targets", runid + 1)
                 sr == QueryOut("sources", runid + 1)
             IN /\ tg \cap sr = {}
                /\ tg \cup sr = {n \in KnownFiles : fs[n].ex \/ w.db[n].gen}

\* lower bound: whatever redo-ifchange would run is listed
OodLower == Quiet => \A t \in QueryOut("targets", runid + 1) :
                        (MustRun(t) /\ ~Stamped(t)) => t \in QueryOut("ood", runid + 1)

\* upper bound: anything listed beyond the targets that will really run depends,
\* directly or indirectly, on a checksummed target that must run
RECURSIVE SeenClo(_, _)
SeenClo(S, k) == IF k = 0 THEN S
                 ELSE SeenClo(S \cup UNION {{d.n : d \in gh.seen[n].deps} \cap Plain : n \in S \cap Plain}, k - 1)
OodUpper == Quiet => \A t \in QueryOut("ood", runid + 1) :
                \/ MustRun(t)
                \/ \E m \in SeenClo({t}, Cardinality(Plain)) \cap Plain : Stamped(m) /\ MustRun(m)

OodEmptyAfterBuild ==
    AfterOk => \A n \in Closure({NormAt(LastH.cwd, LastH.targs[i]) : i \in 1..Len(LastH.targs)}) \cap Plain :
                   AlwaysTarget(n) \/ n \notin QueryOut("ood", runid + 1)
                   \/ \E m \in Closure({n}) \cap Plain : AlwaysTarget(m)

=============================================================================
