--------------------------- MODULE RedoSysProps ---------------------------
(* Properties of RedoSys (filled in below). *)
EXTENDS RedoSys
=============================================================================
