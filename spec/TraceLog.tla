------------------------------- MODULE TraceLog -------------------------------
(***************************************************************************)
(* C18 on real output: the raw (--no-pretty) stream of a top-level redo,   *)
(* or of `redo-log -r`, tokenised line by line by lib/logcheck.py:         *)
(*   Do{t} Resumed{t} Done{t}   structured records (parsed by Meta::parse) *)
(*   Line{t, k}                 the k-th line the script of t wrote        *)
(*   Glued{}                    a line that contains a record not at its   *)
(*                              start                                      *)
(*   End{expect}                end of the stream; expect[i] = <<t, n>>:   *)
(*                              the script of t ran and wrote n lines      *)
(* The attribution rule is the one of RedoLog: a line belongs to the       *)
(* target of the last Do / Resumed record before it.                       *)
(***************************************************************************)
EXTENDS Naturals, Sequences, FiniteSets, TLC, Json, IOUtils

Rec == ndJsonDeserialize(IOEnv.TRACE)

VARIABLES l, cur, seen, dos, bad
vars == <<l, cur, seen, dos, bad>>

Init == l = 1 /\ cur = "" /\ seen = << >> /\ dos = {} /\ bad = ""

e == Rec[l]
Get(fn, k, d) == IF k \in DOMAIN fn THEN fn[k] ELSE d
Put(fn, k, v) == [x \in DOMAIN fn \cup {k} |-> IF x = k THEN v ELSE fn[x]]

Check ==
    CASE e.ev = "Reset" -> ""
      [] e.ev = "Do" -> IF e.t \in dos THEN "a target is announced twice" ELSE ""
      [] e.ev = "Resumed" -> ""
      [] e.ev = "Done" -> ""
      [] e.ev = "Line" ->
            IF e.k <= Get(seen, e.t, 0) THEN "a line of a script is shown twice"
            ELSE IF e.k # Get(seen, e.t, 0) + 1 THEN "a line of a script is lost or out of order"
            ELSE IF cur # e.t THEN "a line is shown under another target"
            ELSE ""
      [] e.ev = "Glued" -> "a structured record does not start at the beginning of a line"
      [] e.ev = "End" ->
            IF \E i \in 1..Len(e.expect) : Get(seen, e.expect[i][1], 0) # e.expect[i][2]
            THEN "lines of a script are missing at the end of the stream" ELSE ""
      [] OTHER -> ""

Step ==
    CASE e.ev = "Reset" -> cur' = "" /\ seen' = << >> /\ dos' = {}
      [] e.ev = "Do" -> cur' = e.t /\ dos' = dos \cup {e.t} /\ UNCHANGED seen
      [] e.ev = "Resumed" -> cur' = e.t /\ UNCHANGED <<seen, dos>>
      [] e.ev = "Line" -> seen' = Put(seen, e.t, e.k) /\ UNCHANGED <<cur, dos>>
      [] OTHER -> UNCHANGED <<cur, seen, dos>>

Next == /\ l <= Len(Rec) /\ bad = ""
        /\ l' = l + 1
        /\ bad' = Check
        /\ Step

Spec == Init /\ [][Next]_vars
Accepted == bad = ""
View == <<l, bad>>
Alias == [l |-> l, bad |-> bad, cur |-> cur, seen |-> seen,
          ev |-> IF l > 1 /\ l <= Len(Rec) + 1 THEN Rec[l-1] ELSE << >>]
=============================================================================
