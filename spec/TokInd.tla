------------------------------- MODULE TokInd -------------------------------
(***************************************************************************)
(* Token conservation as an inductive invariant (Apalache), for arbitrary  *)
(* values of the counters: the token layer of RedoJobs / TraceJobs over a  *)
(* fixed set of process slots, with the RedoTok arithmetic.  TLC explores  *)
(* the reachable states of small trees; this module shows that the         *)
(* accounting identity is preserved by every token step from ANY state     *)
(* that satisfies it, whatever the numbers of tokens, cheats, jobs.        *)
(*                                                                         *)
(*   apalache-mc check --init=IndInit --inv=IndInv --length=1 TokInd.tla   *)
(*   apalache-mc check --init=Init    --inv=IndInv --length=0 TokInd.tla   *)
(***************************************************************************)
EXTENDS Integers, FiniteSets, Apalache, RedoTok

CONSTANTS
    \* @type: Set(Int);
    Procs,
    \* @type: Int;
    J

VARIABLES
    \* @type: Int;
    pipe,
    \* @type: Int;
    cpipe,
    \* @type: Int -> Int;
    my,
    \* @type: Int -> Int;
    ch,
    \* @type: Int -> Int;
    kids,
    \* @type: Int -> Bool;
    live,
    \* @type: Int -> Bool;
    sub

ConstInit == Procs = {1, 2, 3, 4} /\ J \in 1..1000

\* @type: (Int, Int) => Int;
Plus(a, b) == a + b
Contrib(p) == IF live[p] THEN my[p] - ch[p] - (IF sub[p] THEN 1 ELSE 0) + kids[p] ELSE 0
Total == pipe - cpipe + ApaFoldSet(Plus, 0, {Contrib(p) : p \in Procs})

\* (sets collapse equal contributions: sum over the processes one by one instead)
Sum4 == Contrib(1) + Contrib(2) + Contrib(3) + Contrib(4)
Conservation == pipe - cpipe + Sum4 = J

TypeOK ==
    /\ pipe \in Int /\ cpipe \in Int
    /\ my \in [Procs -> Int] /\ ch \in [Procs -> Int] /\ kids \in [Procs -> Int]
    /\ live \in [Procs -> BOOLEAN] /\ sub \in [Procs -> BOOLEAN]

IndInv ==
    /\ TypeOK
    /\ pipe >= 0 /\ cpipe >= 0
    /\ \A p \in Procs : my[p] >= 0 /\ ch[p] >= 0 /\ kids[p] >= 0
    /\ \A p \in Procs : ~live[p] => (my[p] = 0 /\ ch[p] = 0 /\ kids[p] = 0)
    /\ Conservation

\* any state satisfying the invariant (for the inductive step)
IndInit ==
    /\ pipe = Gen(1) /\ cpipe = Gen(1)
    /\ my = Gen(4) /\ ch = Gen(4) /\ kids = Gen(4) /\ live = Gen(4) /\ sub = Gen(4)
    /\ IndInv

\* the real initial state: an own top level (process 1) holding all J tokens
Init ==
    /\ pipe = 0 /\ cpipe = 0
    /\ my = [p \in Procs |-> IF p = 1 THEN J ELSE 0]
    /\ ch = [p \in Procs |-> 0]
    /\ kids = [p \in Procs |-> 0]
    /\ live = [p \in Procs |-> p = 1]
    /\ sub = [p \in Procs |-> FALSE]

Same(vs) == TRUE

\* JobServerHandle::start: destroy the own token, the child is born with one
JobStart(p) ==
    /\ live[p] /\ my[p] = 1
    /\ my' = [my EXCEPT ![p] = 0]
    /\ kids' = [kids EXCEPT ![p] = @ + 1]
    /\ UNCHANGED <<pipe, cpipe, ch, live, sub>>

\* a token is read from the pipe
TokGet(p) ==
    /\ live[p] /\ my[p] = 0 /\ pipe >= 1
    /\ pipe' = pipe - 1
    /\ my' = [my EXCEPT ![p] = 1]
    /\ UNCHANGED <<cpipe, ch, kids, live, sub>>

\* child exit: re-create its token, share the surplus, reap
ReapCreate(p) ==
    /\ live[p] /\ kids[p] >= 1
    /\ LET c == CreateTok(my[p], ch[p], 1)
           r == RelTok(c.my, c.ch, IF c.my >= 1 THEN c.my - 1 ELSE 0)
       IN /\ my' = [my EXCEPT ![p] = r.my]
          /\ ch' = [ch EXCEPT ![p] = r.ch]
          /\ pipe' = pipe + r.shared
    /\ kids' = [kids EXCEPT ![p] = @ - 1]
    /\ UNCHANGED <<cpipe, live, sub>>

\* child exit with a compensation byte waiting: eat it, create nothing
ReapEat(p) ==
    /\ live[p] /\ kids[p] >= 1 /\ cpipe >= 1
    /\ cpipe' = cpipe - 1
    /\ kids' = [kids EXCEPT ![p] = @ - 1]
    /\ UNCHANGED <<pipe, my, ch, live, sub>>

\* release n tokens (wait_all, release_mine, release_except_mine)
Release(p) ==
    \E n \in 0..3 :
        /\ live[p] /\ my[p] >= n
        /\ LET r == RelTok(my[p], ch[p], n) IN
           /\ my' = [my EXCEPT ![p] = r.my]
           /\ ch' = [ch EXCEPT ![p] = r.ch]
           /\ pipe' = pipe + r.shared
        /\ UNCHANGED <<cpipe, kids, live, sub>>

\* cheat: a token from nothing, remembered as borrowed
Cheat(p) ==
    /\ live[p] /\ my[p] = 0
    /\ my' = [my EXCEPT ![p] = 1]
    /\ ch' = [ch EXCEPT ![p] = @ + 1]
    /\ UNCHANGED <<pipe, cpipe, kids, live, sub>>

\* a script of p starts a sub-redo q: born with the token the script lends it
Spawn(p, q) ==
    /\ live[p] /\ ~live[q] /\ kids[p] >= 1
    /\ live' = [live EXCEPT ![q] = TRUE]
    /\ sub' = [sub EXCEPT ![q] = TRUE]
    /\ my' = [my EXCEPT ![q] = 1]
    /\ UNCHANGED <<pipe, cpipe, ch, kids>>

\* force_return_tokens and exit of a process born with a lent token: it leaves with exactly one real token,
\* or compensates for the borrowed one it holds (the exit path of the code, builder.rs end of run())
Exit(q) ==
    /\ live[q] /\ sub[q] /\ kids[q] = 0
    /\ my[q] >= 1 /\ ch[q] <= 1 /\ ch[q] <= my[q]
    /\ LET r == RelTok(my[q], ch[q], my[q] - 1) IN      \* release_except_mine
       /\ r.ch <= r.my
       /\ pipe' = pipe + r.shared
       /\ cpipe' = cpipe + r.ch                          \* compensation byte for a borrowed last token
    /\ live' = [live EXCEPT ![q] = FALSE]
    /\ sub' = [sub EXCEPT ![q] = FALSE]
    /\ my' = [my EXCEPT ![q] = 0]
    /\ ch' = [ch EXCEPT ![q] = 0]
    /\ UNCHANGED kids

\* the pinned exit path: a process that used up a borrowed token could leave with no token and no compensation
ExitTokenless(q) ==
    /\ live[q] /\ sub[q] /\ kids[q] = 0 /\ my[q] = 0 /\ ch[q] = 0
    /\ live' = [live EXCEPT ![q] = FALSE]
    /\ sub' = [sub EXCEPT ![q] = FALSE]
    /\ UNCHANGED <<pipe, cpipe, my, ch, kids>>

\* anti-vacuity: with that step the invariant is not inductive (Apalache must report a violation)
NextPinned == \E p \in Procs : ExitTokenless(p)

Next ==
    \E p \in Procs :
        \/ JobStart(p) \/ TokGet(p) \/ ReapCreate(p) \/ ReapEat(p) \/ Release(p) \/ Cheat(p) \/ Exit(p)
        \/ \E q \in Procs : Spawn(p, q)
=============================================================================
