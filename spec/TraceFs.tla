------------------------------- MODULE TraceFs -------------------------------
(***************************************************************************)
(* C04 / C11 on system-call traces (no hooks involved): what redo itself   *)
(* does to the files of a project.  The trace (environment variable TRACE) *)
(* is the projection of `strace -f` of one top-level command onto          *)
(*   Reset{user, plain}    start of a command: the files the user owns at  *)
(*                         that moment (from the specification state) and  *)
(*                         all project file names                          *)
(*   Exec{pid, kind, t}    kind "redo" (any of the redo commands),         *)
(*                         "script" (sh -e x.do $1 $2 $3; t = the target)  *)
(*                         or "other" (what the scripts run)               *)
(*   Open{pid, path, w}    open for writing / creating / truncating        *)
(*   Rename{pid, src, dst}, Unlink{pid, path}                              *)
(*   Exit{pid, rv}         process exit (rv < 0: killed by a signal)       *)
(*   End                   the command has finished                        *)
(* Paths are relative to the project directory; <t>.redo.tmp is $3 of t.   *)
(*                                                                         *)
(* The protocol is the one RedoSys states (RecCopy, RecFs): redo never     *)
(* writes into a project file; a target changes, by redo's hand, only      *)
(* through rename(<t>.redo.tmp, t) or unlink(t), and only after the script *)
(* of t has exited 0; redo never touches a file the user owns; whatever    *)
(* was created at $3 is gone when the command ends.                        *)
(***************************************************************************)
EXTENDS Naturals, Integers, Sequences, FiniteSets, TLC, Json, IOUtils

Rec == ndJsonDeserialize(IOEnv.TRACE)

VARIABLES
    l,
    kind,     \* [pid -> "redo" | "script" | "other"]
    job,      \* [target -> [pid, st ("run" | "exited"), rv]] last script started for the target
    user,     \* files the user owns
    plain,    \* project file names (sources, targets)
    tmps,     \* temporary output files that exist
    bad

vars == <<l, kind, job, user, plain, tmps, bad>>

Init == l = 1 /\ kind = << >> /\ job = << >> /\ user = {} /\ plain = {} /\ tmps = {} /\ bad = ""

e == Rec[l]
Put(fn, k, v) == [x \in DOMAIN fn \cup {k} |-> IF x = k THEN v ELSE fn[x]]
Get(fn, k, dflt) == IF k \in DOMAIN fn THEN fn[k] ELSE dflt
KindOf(p) == Get(kind, p, "other")
IsRedo(p) == KindOf(p) = "redo"
Tmp(t) == t \o ".redo.tmp"
IsTmp(p) == \E t \in plain : p = Tmp(t)
Done0(t) == t \in DOMAIN job /\ job[t].st = "exited" /\ job[t].rv = 0

Check ==
    CASE e.ev = "Reset" -> ""
      [] e.ev = "Exec" -> ""
      [] e.ev = "Open" ->
            IF IsRedo(e.pid) /\ e.w /\ e.path \in plain
            THEN "a redo process opened a project file for writing (targets change only by rename or unlink)"
            ELSE ""
      [] e.ev = "Rename" ->
            IF ~IsRedo(e.pid) THEN ""
            ELSE IF e.dst \notin plain THEN ""
            ELSE IF e.dst \in user THEN "redo replaced a file the user owns"
            ELSE IF e.src # Tmp(e.dst) THEN "redo renamed something other than the temporary output file onto a target"
            ELSE IF ~Done0(e.dst) THEN "redo installed output although the script of the target has not exited 0"
            ELSE ""
      [] e.ev = "Unlink" ->
            IF ~IsRedo(e.pid) \/ e.path \notin plain THEN ""
            ELSE IF e.path \in user THEN "redo removed a file the user owns"
            ELSE IF ~Done0(e.path) THEN "redo removed a target although its script has not exited 0"
            ELSE ""
      [] e.ev = "Exit" -> ""
      [] e.ev = "End" -> IF tmps # {} THEN "a temporary output file is left behind when the command ends" ELSE ""
      [] OTHER -> "unknown event"

Step ==
    CASE e.ev = "Reset" ->
            /\ kind' = << >> /\ job' = << >> /\ tmps' = {}
            /\ user' = {e.user[i] : i \in 1..Len(e.user)}
            /\ plain' = {e.plain[i] : i \in 1..Len(e.plain)}
      [] e.ev = "Exec" ->
            /\ kind' = Put(kind, e.pid, e.kind)
            /\ job' = IF e.kind = "script" THEN Put(job, e.t, [pid |-> e.pid, st |-> "run", rv |-> 0]) ELSE job
            /\ UNCHANGED <<user, plain, tmps>>
      [] e.ev = "Open" ->
            /\ tmps' = IF e.w /\ IsTmp(e.path) THEN tmps \cup {e.path} ELSE tmps
            \* a file a script writes in place ($1, a side file) is its business; it stops being the user's
            /\ user' = IF e.w /\ ~IsRedo(e.pid) THEN user \ {e.path} ELSE user
            /\ UNCHANGED <<kind, job, plain>>
      [] e.ev = "Rename" ->
            /\ tmps' = tmps \ {e.src}
            /\ user' = IF ~IsRedo(e.pid) THEN user \ {e.dst} ELSE user
            /\ UNCHANGED <<kind, job, plain>>
      [] e.ev = "Unlink" ->
            /\ tmps' = tmps \ {e.path}
            /\ UNCHANGED <<kind, job, user, plain>>
      [] e.ev = "Exit" ->
            /\ job' = [t \in DOMAIN job |-> IF job[t].pid = e.pid /\ job[t].st = "run"
                                            THEN [job[t] EXCEPT !.st = "exited", !.rv = e.rv] ELSE job[t]]
            /\ UNCHANGED <<kind, user, plain, tmps>>
      [] OTHER -> UNCHANGED <<kind, job, user, plain, tmps>>

Next ==
    /\ l <= Len(Rec) /\ bad = ""
    /\ l' = l + 1
    /\ bad' = Check
    /\ Step

Spec == Init /\ [][Next]_vars

Accepted == bad = ""

View == <<l, bad>>
Alias == [l |-> l, bad |-> bad, job |-> job, user |-> user, tmps |-> tmps,
          ev |-> IF l > 1 /\ l <= Len(Rec) + 1 THEN Rec[l-1] ELSE << >>]
=============================================================================
