------------------------------ MODULE RedoSys ------------------------------
(***************************************************************************)
(* The redo-rs build system as one state machine: file system, dependency  *)
(* database, target locks and the tree of cooperating processes (top-level *)
(* commands, sub-redo-ifchange processes, .do scripts, redo-unlocked).     *)
(*                                                                         *)
(* One action per atomic unit of the implementation (DESIGN.md section 1): *)
(*   Declare      ifchange.rs:69-97    edges parent -> targets, one tx     *)
(*   Consider     builder.rs:719-791   from_name, try_lock, should_build,  *)
(*                                     start / start_self, one tx          *)
(*   ScriptStep   the .do script: one redo-* call or one output step       *)
(*   RecFs        builder.rs:499-584   rename(tmp,t) / unlink(t)           *)
(*   RecCommit    builder.rs:585-636   row + zap_deps2 + commit, unlock    *)
(*   Pass2        builder.rs:801-886   queued (locked) targets             *)
(*   Finish       process exit                                             *)
(* Job tokens are abstracted to "at most J scripts do work at a time"      *)
(* (the pipe protocol itself is RedoJobs.tla).                             *)
(***************************************************************************)
EXTENDS RedoCore

CONSTANTS
    Plain,      \* file names that are not .do files (sources, targets, watched paths)
    DoFiles,    \* names of .do files
    Cands,      \* [Plain -> Seq(DoFiles)]  candidate .do files, best first
    Rules,      \* [DoFiles -> Seq([Plain -> Seq(Op)])]  rule text per version
    InitFiles,  \* files existing initially (sources and .do files)
    J,          \* unused default for -j (each command record carries its own j)
    Cmds,       \* commands the user may run: [kind, targs, keep, j]
    UserFiles,  \* files the user may write by hand
    RmFiles,    \* files the user may remove
    DoEdits,    \* .do files the user may edit / remove / add
    NoDir,      \* targets whose directory does not exist (nothing creates it)
    TmpFiles,   \* targets for which a stale <t>.redo.tmp may be lying around (left by a killed earlier run)
    MaxHist,    \* bound on the number of user-level steps
    MaxCmds,    \* bound on the number of commands among them
    UnlockedBug, \* TRUE: redo-unlocked re-runs its deps instead of its target (pinned defect)
    MaxCrash,      \* how many kills (SIGKILL of one redo process or of the whole tree) may happen
    CrashWindow,   \* TRUE: kills may also land between rename(tmp, t) and the commit recording it
    StampWindow,   \* TRUE: kills may also land between a script's redo-stamp and the recording of its build
    StaleTmpDirBug, \* TRUE: pinned behaviour, a stale <t>.redo.tmp that is a directory makes start_self fail (EISDIR)
    SelfDepPanics, \* TRUE: pinned behaviour, add_dep asserts self.id != src.id (exit 101)
    NullStampPanics, \* TRUE: pinned behaviour, start_self unwraps the stamp of a generated record that has none (exit 101)
    OverrideStale, \* TRUE: pinned behaviour, start_self records an overridden file only when it first notices the override
    Links,      \* [link name -> Seq(names)]: sources that are symbolic links, and what the user may point them to
                \* (initially the first; the pointees are sources that are never removed)
    LogViewer,  \* TRUE: top-level commands run with their log viewer (redo-log), which probes target locks
    Alias,      \* [spelling -> name]: other spellings (./a, d/../a, ...) of files, as they may appear on command lines
                \* and in scripts; every spelling of a file is that file (one record, one lock, one build)
    Pairs,      \* set of pairs <<c1, c2>> of commands the user may start at the same time (two invocations on one project)
    NameSeq     \* all file names in the order of SQL `order by name` (TLC cannot compare strings)

Files == Plain \cup DoFiles
Names == Files \cup {ALWAYS}

\* state.rs:388-404, 1284-1418: names are cleaned, resolved and stored relative to the project base
Norm(x) == IF x \in DOMAIN Alias THEN Alias[x] ELSE x
NormSeq(q) == [i \in 1..Len(q) |-> Norm(q[i])]
\* a command started in the directory cwd of the project (env.rs: the project base is found by walking upwards; names on
\* the command line are relative to the working directory): the key of such a spelling is "<cwd>|<spelling>"
NormAt(cwd, x) == IF cwd # "" /\ (cwd \o "|" \o x) \in DOMAIN Alias THEN Alias[cwd \o "|" \o x] ELSE Norm(x)
NormSeqAt(cwd, q) == [i \in 1..Len(q) |-> NormAt(cwd, q[i])]

VARIABLES
    fs,      \* [Files -> [ex, val, ver, own]]
    tmp,     \* set of <<target, kind>> whose <t>.redo.tmp exists (kind "f" file, "d" directory)
    clock,   \* source of fresh stamps
    w,       \* the database (RedoCore world)
    runid,   \* last allocated run id
    locks,   \* [Plain -> Pid or <<>>]  fcntl lock holder
    procs,   \* [Pid -> process record]
    cmd,     \* the user-level command in flight (or idle)
    hist,    \* user-level history with observations, for replay
    ran,     \* targets whose script was started by the command in flight
    ncmds,
    pool,    \* free job tokens (the token pipe, abstractly) of each top-level command
    gh       \* ghost state for the reference semantics (never read by the actions):
             \*   gh.cg[n]   content generation of file n: bumped by every user write or
             \*              removal and by every rebuild -- except a rebuild of a
             \*              checksummed target that reproduces the same content
             \*   gh.seen[t] what t's last successful build saw: [built, out, deps, stamped, val]
             \*   gh.fails   targets whose build failed in the command in flight
             \*   gh.src     files redo has accepted as sources (static) since they were last written
             \*   gh.codes   non-zero job statuses recorded in the command in flight ("(exit N)" log lines)

vars == <<fs, tmp, clock, w, runid, locks, procs, cmd, hist, ran, ncmds, pool, gh>>

NoPid == <<>>
Top   == <<"c">>
Top2  == <<"d">>        \* the second of two commands started together
Root(p) == <<p[1]>>     \* the top-level command a process belongs to (its jobserver, its run id)

NoCmd == [kind |-> "none", targs |-> <<>>, keep |-> FALSE, j |-> 1, cwd |-> ""]
Idle  == [kind |-> "idle", targs |-> <<>>, keep |-> FALSE, j |-> 1, cwd |-> "", c2 |-> NoCmd]
WithC2(c, c2) == [kind |-> c.kind, targs |-> c.targs, keep |-> c.keep, j |-> c.j, cwd |-> c.cwd, c2 |-> c2]

FileRec(n, k, c, own) == [ex |-> TRUE, val |-> [n |-> n, k |-> k, v |-> c, d |-> <<>>],
                          ver |-> c, own |-> own, dir |-> FALSE, lnk |-> ""]
Absent == [ex |-> FALSE, val |-> NoVal, ver |-> 0, own |-> "none", dir |-> FALSE, lnk |-> ""]

\* temporary output files: tmp is a set of pairs <<target, "f" | "d">> ($3 made a directory by the script)
HasTmp(t)      == \E x \in tmp : x[1] = t
TmpDir(t)      == <<t, "d">> \in tmp
DelTmp(S, t)   == {x \in S : x[1] # t}
AddTmp(S, t, k) == DelTmp(S, t) \cup {<<t, k>>}

NeverBuilt == [built |-> FALSE, out |-> 0, deps |-> {}, stamped |-> FALSE, val |-> NoVal]

DoVer(df) == fs[df].val.v          \* version of the rule text currently in df
\* the content c was made by reading the first version of the hand-written file src (as its first input)
FromFirst(c, src) == Len(c.d) >= 1 /\ c.d[1].n = src /\ c.d[1].k = "user" /\ c.d[1].v = 1
\* what reading n gives (through a symbolic link: the content of what it points to)
ReadVal(n) == IF ~fs[n].ex THEN NoVal
              ELSE IF fs[n].lnk # "" THEN (IF fs[fs[n].lnk].ex THEN fs[fs[n].lnk].val ELSE NoVal)
              ELSE fs[n].val

EnvOf(p)  == [fs |-> fs, rid |-> procs[p].rid, q |-> FALSE]

(***************************************************************************)
(* Process records (one shape for all kinds)                               *)
(***************************************************************************)
ProcDefaults ==
    [kind |-> "", par |-> NoPid, pc |-> "", rc |-> None, rid |-> 0,
     forced |-> FALSE, keep |-> FALSE, targs |-> <<>>, i |-> 1, queue |-> <<>>,
     jobs |-> {}, err |-> 0,
     tgt |-> "", unl |-> FALSE, oob |-> FALSE, cyc |-> {},
     t |-> "", df |-> "", dv |-> 0, opi |-> 1, std |-> FALSE, file |-> FALSE,
     val |-> NoVal, kid |-> NoPid, tok |-> 0,
     decl |-> {}, stamped |-> FALSE,      \* ghost: what the script declared / whether it ran redo-stamp
     qout |-> {}]                         \* what a query printed

Alive(p)   == p \in DOMAIN procs

\* Job tokens, abstractly: every process holds 0 or 1 token (`tok`), the rest
\* are in `pool`.  A redo process needs its token to consider a target, hands
\* it to the job it starts and gets one back when it reaps a job; a script
\* lends its token to the redo-ifchange it waits for.
Working(p) == procs[p].kind \in {"script", "unlocked"} /\ procs[p].pc = "run"
              /\ procs[p].kid = NoPid
Active     == {p \in DOMAIN procs : Working(p)}

Spawn(ps, p, rec) == [q \in DOMAIN ps \cup {p} |-> IF q = p THEN rec ELSE ps[q]]
Kill(ps, S)       == [q \in DOMAIN ps \ S |-> ps[q]]

ReleaseAll(lk, p) == [n \in DOMAIN lk |-> IF lk[n] = p THEN NoPid ELSE lk[n]]

(***************************************************************************)
(* Initial state                                                           *)
(***************************************************************************)
Init ==
    /\ fs = [n \in Files |->
               IF n \in DOMAIN Links THEN [FileRec(n, "link", 1, "user") EXCEPT !.lnk = Links[n][1]]
               ELSE IF n \in InitFiles
               THEN FileRec(n, IF n \in DoFiles THEN "do" ELSE "user", 1, "user")
               ELSE Absent]
    /\ tmp = {}
    /\ clock = 1
    /\ w = [db |-> [n \in Names |-> NewRow],
            ids |-> [n \in Names |-> IF n = ALWAYS THEN 1 ELSE 0],
            next |-> 2, edges |-> {}, memo |-> {}]
    /\ runid = 0
    /\ locks = [n \in Plain |-> NoPid]
    /\ procs = << >>
    /\ cmd = Idle
    /\ hist = << >>
    /\ ran = << >>
    /\ ncmds = 0
    /\ pool = [r \in {Top, Top2} |-> 0]
    /\ gh = [cg |-> [n \in Files |-> 0],
             seen |-> [n \in Plain |-> NeverBuilt],
             fails |-> {}, src |-> {}, codes |-> {}, crashes |-> 0, crashNow |-> FALSE, inner |-> {},
             ranr |-> << >>]      \* ranr[i]: the command (root) that started ran[i]

\* (a symbolic link to n reads differently too)
Bump(n) == [gh EXCEPT !.cg = [x \in Files |-> IF x = n \/ (fs[x].ex /\ fs[x].lnk = n) THEN @[x] + 1 ELSE @[x]],
                      !.src = @ \ {n}]

Quiet == DOMAIN procs = {} /\ cmd.kind = "idle"

(***************************************************************************)
(* What the harness observes after a command                               *)
(***************************************************************************)
StampRel(n) == LET s == w.db[n].stamp IN
               IF s = None THEN "none"
               ELSE IF s = Missing THEN "missing"
               ELSE IF s = CurStamp(fs, n) THEN "cur" ELSE "stale"

Snapshot ==
    [files |-> [n \in Files |-> ReadVal(n)],
     links |-> [n \in {m \in Files : fs[m].ex /\ fs[m].lnk # ""} |-> fs[n].lnk],
     rows  |-> [n \in {m \in Names : w.ids[m] # 0} |->
                  [id |-> w.ids[n], gen |-> w.db[n].gen, ovr |-> w.db[n].ovr, checked |-> w.db[n].checked,
                   changed |-> w.db[n].changed, failed |-> w.db[n].failed,
                   stamp |-> StampRel(n), csum |-> w.db[n].csum]],
     edges |-> w.edges,
     dirs  |-> {n \in Files : fs[n].ex /\ fs[n].dir},
     tmp   |-> {x[1] : x \in tmp},
     tmpd  |-> {x[1] : x \in {y \in tmp : y[2] = "d"}}]

(***************************************************************************)
(* User actions (only while nothing runs: the properties' proviso)         *)
(***************************************************************************)
CanAct == Quiet /\ Len(hist) < MaxHist

UserWrite(n) ==
    /\ CanAct /\ n \in UserFiles /\ ~fs[n].dir /\ n \notin DOMAIN Links
    /\ clock' = clock + 1
    \* the content version is the position in the history (independent of how
    \* many files redo wrote in between); the stamp comes from the clock
    /\ fs' = [fs EXCEPT ![n] = [FileRec(n, "user", Len(hist) + 2, "user") EXCEPT !.ver = clock + 1]]
    /\ hist' = Append(hist, [a |-> "write", n |-> n, v |-> Len(hist) + 2])
    /\ UNCHANGED <<tmp, w, runid, locks, procs, cmd, ran, ncmds, pool>>
    /\ gh' = Bump(n)

\* ln -sfn: the link n is replaced by a link to another file
UserRelink(n, m) ==
    /\ CanAct /\ n \in DOMAIN Links /\ m \in {Links[n][i] : i \in 1..Len(Links[n])} /\ fs[n].lnk # m
    /\ clock' = clock + 1
    /\ fs' = [fs EXCEPT ![n] = [FileRec(n, "link", clock + 1, "user") EXCEPT !.lnk = m]]
    /\ hist' = Append(hist, [a |-> "relink", n |-> n, v |-> m])
    /\ UNCHANGED <<tmp, w, runid, locks, procs, cmd, ran, ncmds, pool>>
    /\ gh' = Bump(n)

UserRemove(n) ==
    /\ CanAct /\ n \in RmFiles /\ fs[n].ex
    /\ fs' = [fs EXCEPT ![n] = Absent]
    /\ hist' = Append(hist, [a |-> "rm", n |-> n])
    /\ UNCHANGED <<tmp, clock, w, runid, locks, procs, cmd, ran, ncmds, pool>>
    /\ gh' = Bump(n)

\* a stale temporary output file appears beside n (what a killed earlier build leaves behind)
\* (k = "f": a partial output file; k = "l": a dangling symbolic link, what `ln -s data $3` leaves when the build is killed
\* before the data exists - whatever it is, it is removed before the next job of n starts)
UserTmp(n, k) ==
    \* (whatever was at $3 before is replaced: the step is possible in every state, so that the histories with this input
    \* do not depend on what the commands before it left behind)
    /\ CanAct /\ n \in TmpFiles
    /\ tmp' = AddTmp(tmp, n, k)
    /\ hist' = Append(hist, [a |-> "tmp", n |-> n, v |-> k])
    /\ UNCHANGED <<fs, clock, w, runid, locks, procs, cmd, ran, ncmds, pool, gh>>

\* next version of the rule text (new content, new stamp)
DoEdit(df) ==
    /\ CanAct /\ df \in DoEdits /\ fs[df].ex /\ DoVer(df) < Len(Rules[df])
    /\ clock' = clock + 1
    /\ fs' = [fs EXCEPT ![df] = [ex |-> TRUE, val |-> [n |-> df, k |-> "do", v |-> DoVer(df) + 1, d |-> <<>>],
                                 ver |-> clock + 1, own |-> "user", dir |-> FALSE, lnk |-> ""]]
    /\ hist' = Append(hist, [a |-> "doedit", n |-> df, v |-> DoVer(df) + 1])
    /\ UNCHANGED <<tmp, w, runid, locks, procs, cmd, ran, ncmds, pool>>
    /\ gh' = Bump(df)

DoRemove(df) ==
    /\ CanAct /\ df \in DoEdits /\ fs[df].ex
    /\ fs' = [fs EXCEPT ![df] = [Absent EXCEPT !.val = fs[df].val]]   \* remember the version
    /\ hist' = Append(hist, [a |-> "rm", n |-> df])
    /\ UNCHANGED <<tmp, clock, w, runid, locks, procs, cmd, ran, ncmds, pool>>
    /\ gh' = Bump(df)

DoAdd(df) ==
    /\ CanAct /\ df \in DoEdits /\ ~fs[df].ex
    /\ clock' = clock + 1
    /\ LET v == IF fs[df].val.k = "do" THEN fs[df].val.v ELSE 1 IN
       /\ fs' = [fs EXCEPT ![df] = [ex |-> TRUE, val |-> [n |-> df, k |-> "do", v |-> v, d |-> <<>>],
                                    ver |-> clock + 1, own |-> "user", dir |-> FALSE, lnk |-> ""]]
       /\ hist' = Append(hist, [a |-> "doadd", n |-> df, v |-> v])
    /\ UNCHANGED <<tmp, w, runid, locks, procs, cmd, ran, ncmds, pool>>
    /\ gh' = Bump(df)

(***************************************************************************)
(* Commands                                                                *)
(***************************************************************************)
IsQuery(c) == c.kind \in {"ood", "targets", "sources"}
TopRec(c) == IF IsQuery(c) THEN [ProcDefaults EXCEPT !.kind = "query", !.pc = "init", !.t = c.kind] ELSE
             [ProcDefaults EXCEPT !.kind = "redo", !.pc = "init", !.forced = (c.kind = "redo"), !.keep = c.keep,
                                  !.targs = NormSeqAt(c.cwd, c.targs), !.tok = 1]

StartBuild(c) ==
    /\ CanAct /\ ncmds < MaxCmds /\ c \in Cmds /\ c.kind \in {"ifchange", "redo"}
    /\ runid' = runid + 1
    /\ cmd' = WithC2(c, NoCmd)
    /\ ncmds' = ncmds + 1
    /\ ran' = << >>
    /\ procs' = Spawn(procs, Top, [TopRec(c) EXCEPT !.pc = "pass1", !.rid = runid + 1])
    \* only `redo -jN` creates more than one token; redo-ifchange at top level runs -j1
    /\ pool' = [pool EXCEPT ![Top] = IF c.kind = "redo" THEN c.j - 1 ELSE 0]
    /\ gh' = [gh EXCEPT !.fails = {}, !.codes = {}, !.crashNow = FALSE, !.inner = {}, !.ranr = << >>]
    /\ UNCHANGED <<fs, tmp, clock, w, locks, hist>>

\* Two commands started at the same time by two users (or two terminals) of one project.  Each is a top-level
\* invocation with its own jobserver; each allocates its run id in its start-up transaction (InitRun), in either order
\* and at any moment relative to the other's progress.
StartPar(pr) ==
    /\ CanAct /\ ncmds + 2 <= MaxCmds /\ pr \in Pairs
    /\ cmd' = WithC2(pr[1], pr[2])
    /\ ncmds' = ncmds + 2
    /\ ran' = << >>
    /\ procs' = Spawn(Spawn(procs, Top, TopRec(pr[1])), Top2, TopRec(pr[2]))
    /\ pool' = [r \in {Top, Top2} |-> LET c == IF r = Top THEN pr[1] ELSE pr[2] IN IF c.kind = "redo" THEN c.j - 1 ELSE 0]
    /\ gh' = [gh EXCEPT !.fails = {}, !.codes = {}, !.crashNow = FALSE, !.inner = {}, !.ranr = << >>]
    /\ UNCHANGED <<fs, tmp, clock, w, runid, locks, hist>>

\* ProcessState::init of a top-level command: the start-up transaction allocates the run id
InitRun(p) ==
    /\ Alive(p) /\ procs[p].kind = "redo" /\ procs[p].pc = "init"
    /\ runid' = runid + 1
    /\ procs' = [procs EXCEPT ![p].pc = "pass1", ![p].rid = runid + 1]
    /\ UNCHANGED <<fs, tmp, clock, w, locks, cmd, hist, ran, ncmds, pool, gh>>

\* the targets whose scripts the command with root r started, in order
RECURSIVE PickRan(_, _)
PickRan(i, r) == IF i > Len(ran) THEN << >>
                 ELSE (IF gh.ranr[i] = r THEN <<ran[i]>> ELSE << >>) \o PickRan(i + 1, r)

\* both commands of a pair have ended
EndPar ==
    /\ cmd.kind \in {"ifchange", "redo"} /\ cmd.c2.kind # "none"
    /\ DOMAIN procs = {Top, Top2} /\ procs[Top].pc = "done" /\ procs[Top2].pc = "done"
    /\ procs' = << >>
    /\ cmd' = Idle
    /\ hist' = Append(hist, [a |-> "par",
                             c1 |-> [kind |-> cmd.kind, targs |-> cmd.targs, keep |-> cmd.keep, j |-> cmd.j, cwd |-> cmd.cwd,
                                     rc |-> procs[Top].rc, ran |-> PickRan(1, Top)],
                             c2 |-> [kind |-> cmd.c2.kind, targs |-> cmd.c2.targs, keep |-> cmd.c2.keep, j |-> cmd.c2.j,
                                     cwd |-> cmd.c2.cwd, rc |-> procs[Top2].rc, ran |-> PickRan(1, Top2),
                                     out |-> procs[Top2].qout],
                             snap |-> Snapshot])
    /\ ran' = << >>
    /\ UNCHANGED <<fs, tmp, clock, w, runid, locks, ncmds, pool, gh>>

EndBuild ==
    /\ cmd.kind \in {"ifchange", "redo"} /\ cmd.c2.kind = "none"
    /\ DOMAIN procs = {Top} /\ procs[Top].pc = "done"
    /\ procs' = << >>
    /\ cmd' = Idle
    /\ hist' = Append(hist, [a |-> "cmd", kind |-> cmd.kind, targs |-> cmd.targs, keep |-> cmd.keep, j |-> cmd.j, cwd |-> cmd.cwd,
                             rc |-> procs[Top].rc, ran |-> ran, codes |-> gh.codes, killed |-> gh.crashNow,
                             snap |-> Snapshot])
    /\ ran' = << >>
    /\ UNCHANGED <<fs, tmp, clock, w, runid, locks, ncmds, pool, gh>>

\* redo-ood / redo-targets / redo-sources: read-only, but allocate a run id.
QueryOut(kind, rid) ==
    LET e  == [fs |-> fs, rid |-> rid, q |-> TRUE]
        known == {n \in Files : w.ids[n] # 0}
        tg == {n \in known : IsTarget(w, e, n)}
    IN
    IF kind = "targets" THEN tg
    ELSE IF kind = "sources" THEN {n \in known : IsSource(w, e, n)}
    ELSE \* ood: is_dirty over the targets in name order, sharing the in-memory memo
        LET order == SelectSeq(NameSeq, LAMBDA x : x \in tg)
            F[i \in 0..Len(order)] ==
                IF i = 0 THEN [w |-> w, out |-> {}]
                ELSE LET d == IsDirty(F[i-1].w, e, order[i]) IN
                     [w |-> d.w, out |-> IF d.v = "clean" THEN F[i-1].out ELSE F[i-1].out \cup {order[i]}]
        IN F[Len(order)].out

Query(c) ==
    /\ CanAct /\ ncmds < MaxCmds /\ c \in Cmds /\ c.kind \in {"ood", "targets", "sources"}
    /\ runid' = runid + 1
    /\ ncmds' = ncmds + 1
    /\ hist' = Append(hist, [a |-> "query", kind |-> c.kind, cwd |-> c.cwd, out |-> QueryOut(c.kind, runid + 1),
                             snap |-> Snapshot])
    /\ UNCHANGED <<fs, tmp, clock, w, locks, procs, cmd, ran, pool, gh>>

\* a query started beside a build: its start-up transaction allocates a run id, then it reads one consistent snapshot of
\* the database (a deferred transaction in WAL mode) and the files as they are at that moment
QueryRun(p) ==
    /\ Alive(p) /\ procs[p].kind = "query" /\ procs[p].pc = "init"
    /\ runid' = runid + 1
    /\ procs' = [procs EXCEPT ![p].pc = "done", ![p].rc = 0, ![p].rid = runid + 1,
                              ![p].qout = QueryOut(procs[p].t, runid + 1)]
    /\ UNCHANGED <<fs, tmp, clock, w, locks, cmd, hist, ran, ncmds, pool, gh>>

(***************************************************************************)
(* redo processes                                                          *)
(***************************************************************************)
\* An error return out of run() by `?`: the process ends at once, its Lock
\* objects are dropped (locks released) and running jobs are abandoned.
ErrorExit(p, code, w1) ==
    /\ procs' = [procs EXCEPT ![p].pc = "done", ![p].rc = code, ![p].jobs = {}]
    /\ locks' = ReleaseAll(locks, p)
    /\ w' = w1
    /\ UNCHANGED <<fs, tmp, clock, runid, cmd, hist, ran, ncmds, pool, gh>>

\* ifchange.rs:69-97: record parent -> target edges before anything is built
Declare(p) ==
    LET P == procs[p] IN
    /\ P.kind = "redo" /\ P.pc = "declare"
    /\ IF P.tgt = "" \/ P.unl THEN
          /\ procs' = [procs EXCEPT ![p].pc = "pass1"]
          /\ UNCHANGED <<fs, tmp, clock, w, runid, locks, cmd, hist, ran, ncmds, pool, gh>>
       ELSE IF P.tgt \in {P.targs[k] : k \in 1..Len(P.targs)} THEN
          \* a target that asks for itself is a dependency cycle of length 1 (add_dep, state.rs)
          ErrorExit(p, IF SelfDepPanics THEN 101 ELSE 208, w)
       ELSE
          LET F[k \in 0..Len(P.targs)] ==
                 IF k = 0 THEN FromName(w, P.tgt) ELSE AddDep(F[k-1], P.tgt, "m", P.targs[k])
          IN /\ w' = F[Len(P.targs)]
             /\ procs' = [procs EXCEPT ![p].pc = "pass1"]
             /\ UNCHANGED <<fs, tmp, clock, runid, locks, cmd, hist, ran, ncmds, pool, gh>>

JobRec(t, k, sf, before, pid) ==
    [t |-> t, k |-> k, sf |-> sf, before |-> before, pid |-> pid, st |-> "run", rv |-> 0,
     std |-> FALSE, file |-> FALSE, val |-> NoVal, df |-> "",
     decl |-> {}, stamped |-> FALSE]

\* The decision taken under the lock (or with a forced lock): builder.rs start()
\* `adv` is the update of the scheduling fields of p (index or queue).
Decide(p, t, w1, adv) ==
    LET P  == procs[p]
        e  == EnvOf(p)
        sf == Load(w1, e, t)
        before == CurStamp(fs, t)
        sb == IF P.forced THEN [v |-> "dirty", need |-> <<>>, w |-> w1, gen |-> TRUE]
              ELSE ShouldBuild(w1, e, t)
        lockIt == IF P.unl THEN locks ELSE [locks EXCEPT ![t] = p]
        Imm(w2, rv, kind) == \* job future already complete; Lock dropped at once; a failure
                          \* becomes known when the future is polled (ImmDone)
            /\ w' = w2
            /\ procs' = [procs EXCEPT ![p] =
                            IF rv = 0 THEN adv
                            ELSE [adv EXCEPT !.jobs = @ \cup {[JobRec(t, "imm", sf, before, NoPid)
                                                               EXCEPT !.st = "exited", !.rv = rv]}]]
            /\ gh' = IF rv # 0 THEN [gh EXCEPT !.fails = @ \cup {t}, !.seen[t].built = FALSE]
                     ELSE IF kind = "static" THEN
                          \* now a source; if no rule exists any more the file is the user's from here on
                          [gh EXCEPT !.seen[t] = NeverBuilt,
                                     !.src = IF \A i \in 1..Len(Cands[t]) : ~fs[Cands[t][i]].ex THEN @ \cup {t} ELSE @]
                     ELSE gh
            /\ UNCHANGED <<fs, tmp, clock, runid, locks, cmd, hist, ran, ncmds, pool>>
    IN
    \* a target that already failed in this run (32) or that depends on itself (208) fails
    \* like a job: the error is delivered through job_futures, running jobs are waited for
    IF sb.v = "failed" THEN Imm(sb.w, 32, "failed")
    ELSE IF sb.v = "cycle" THEN Imm(sb.w, 208, "cycle")
    ELSE IF sb.v = "clean" THEN Imm(sb.w, 0, "clean")
    ELSE IF sb.v = "dirty" \/ P.oob THEN
        LET ss == StartSelf(sb.w, e, t, sf, Cands[t], NullStampPanics, OverrideStale) IN
        IF ss.k = "panic" THEN ErrorExit(p, 101, sb.w)
        ELSE IF ss.k \in {"static", "norule"} THEN Imm(ss.w, ss.rv, ss.k)
        ELSE IF StaleTmpDirBug /\ TmpDir(t) THEN
            \* builder.rs:206 (pinned): unlink() of a stale temporary *directory* fails with EISDIR; start_self returns
            \* the error, the transaction is dropped, the target fails like a job (generic error, exit 1)
            Imm(w1, 1, "starterr")
        ELSE
            LET s == p \o <<t>> IN
            /\ w' = ss.w
            /\ tmp' = DelTmp(tmp, t)
            /\ locks' = lockIt
            /\ ran' = Append(ran, t)
            /\ gh' = [gh EXCEPT !.ranr = Append(@, Root(p))]
            /\ procs' = Spawn([procs EXCEPT ![p] = [adv EXCEPT !.jobs = @ \cup {[JobRec(t, "self", ss.sf, before, s) EXCEPT !.df = ss.df]},
                                                               !.tok = 0]],
                              s, [ProcDefaults EXCEPT !.kind = "script", !.par = p, !.pc = "run", !.tok = 1,
                                     !.rid = P.rid, !.keep = P.keep, !.t = t, !.df = ss.df,
                                     !.dv = DoVer(ss.df), !.cyc = P.cyc \cup {t}])
            /\ UNCHANGED <<fs, clock, runid, cmd, hist, ncmds, pool>>
    ELSE \* NeedTargets: redo-unlocked t deps...
        LET u == p \o <<t>> IN
        /\ w' = sb.w
        /\ locks' = lockIt
        /\ procs' = Spawn([procs EXCEPT ![p] = [adv EXCEPT !.jobs = @ \cup {JobRec(t, "unl", sf, before, u)},
                                                           !.tok = 0]],
                          u, [ProcDefaults EXCEPT !.kind = "unlocked", !.par = p, !.pc = "run", !.tok = 1,
                                 !.rid = P.rid, !.keep = P.keep, !.t = t, !.targs = sb.need,
                                 !.tgt = P.tgt, !.cyc = P.cyc])
        /\ UNCHANGED <<fs, tmp, clock, runid, cmd, hist, ran, ncmds, pool, gh>>

\* pass 1 of builder::run
Consider(p) ==
    LET P == procs[p] IN
    /\ P.kind = "redo" /\ P.pc = "pass1"
    /\ IF P.i > Len(P.targs) THEN
          /\ procs' = [procs EXCEPT ![p].pc = "pass2"]
          /\ UNCHANGED <<fs, tmp, clock, w, runid, locks, cmd, hist, ran, ncmds, pool, gh>>
       ELSE
          LET t   == P.targs[P.i]
              nxt == [P EXCEPT !.i = P.i + 1]
          IN
          IF t \in {P.targs[k] : k \in 1..(P.i - 1)} THEN      \* `seen`
             /\ procs' = [procs EXCEPT ![p] = nxt]
             /\ UNCHANGED <<fs, tmp, clock, w, runid, locks, cmd, hist, ran, ncmds, pool, gh>>
          ELSE
             /\ P.tok = 1
             /\ IF P.err # 0 /\ ~P.keep THEN
                   /\ procs' = [procs EXCEPT ![p].pc = "pass2"]
                   /\ UNCHANGED <<fs, tmp, clock, w, runid, locks, cmd, hist, ran, ncmds, pool, gh>>
                ELSE
                   LET w1 == FromName(w, t) IN
                   IF ~P.unl /\ t \in P.cyc THEN
                      \* try_lock: the target is being built by an ancestor (dependency cycle).  It fails like a
                      \* job (208): the jobs already started are still waited for
                      /\ w' = w1
                      /\ procs' = [procs EXCEPT ![p] = [nxt EXCEPT !.jobs = @ \cup
                                      {[JobRec(t, "imm", Load(w1, EnvOf(p), t), CurStamp(fs, t), NoPid)
                                            EXCEPT !.st = "exited", !.rv = 208]}]]
                      /\ gh' = [gh EXCEPT !.fails = @ \cup {t}]
                      /\ UNCHANGED <<fs, tmp, clock, runid, locks, cmd, hist, ran, ncmds, pool>>
                   ELSE IF ~P.unl /\ locks[t] # NoPid THEN
                      /\ w' = w1
                      /\ procs' = [procs EXCEPT ![p] = [nxt EXCEPT !.queue = Append(@, t)]]
                      /\ UNCHANGED <<fs, tmp, clock, runid, locks, cmd, hist, ran, ncmds, pool, gh>>
                   ELSE Decide(p, t, w1, nxt)

\* builder.rs (start_self): whatever an earlier, killed build left at $3 is removed inside the starting transaction, before
\* that transaction is committed - a file operation the transaction does not cover.  A kill between the two leaves the
\* database as it was and the stale file gone (harmless, but it is a state of its own).  Enabled exactly where Consider or
\* Pass2 would go on to start the script of t.
WouldRun(p, t, w1) ==
    LET P  == procs[p]
        e  == EnvOf(p)
        sb == IF P.forced THEN [v |-> "dirty", need |-> <<>>, w |-> w1, gen |-> TRUE] ELSE ShouldBuild(w1, e, t)
    IN /\ sb.v = "dirty" \/ (sb.v \notin {"failed", "cycle", "clean"} /\ P.oob)
       /\ StartSelf(sb.w, e, t, Load(w1, e, t), Cands[t], NullStampPanics, OverrideStale).k = "run"
       /\ ~(StaleTmpDirBug /\ TmpDir(t))

UnlinkStale(p) ==
    LET P == procs[p] IN
    /\ P.kind = "redo" /\ P.tok = 1 /\ ~(P.err # 0 /\ ~P.keep)
    /\ \E t \in {x[1] : x \in tmp} :
          /\ \/ /\ P.pc = "pass1" /\ P.i <= Len(P.targs) /\ t = P.targs[P.i]
                /\ t \notin {P.targs[k] : k \in 1..(P.i - 1)}
                /\ P.unl \/ (t \notin P.cyc /\ locks[t] = NoPid)
             \/ /\ P.pc = "pass2" /\ P.queue # << >> /\ P.jobs = {} /\ t = Head(P.queue)
                /\ locks[t] = NoPid /\ t \notin P.cyc /\ ~IsFailedRow(Load(w, EnvOf(p), t), P.rid)
          /\ WouldRun(p, t, FromName(w, t))
          /\ tmp' = DelTmp(tmp, t)
    /\ UNCHANGED <<fs, clock, w, runid, locks, procs, cmd, hist, ran, ncmds, pool, gh>>

\* The log viewer learns that the writer of a log has finished by a momentary exclusive try_lock on the *target* lock
\* (log.rs: is_locked).  A builder's try_lock can therefore fail although nobody builds the target; the target then goes
\* through the queue and the second phase like one that another builder holds.  The viewer only looks at targets whose
\* log it reads, i.e. targets that were started in this command.
ConsiderProbe(p) ==
    LET P == procs[p] IN
    /\ LogViewer /\ P.kind = "redo" /\ P.pc = "pass1" /\ P.i <= Len(P.targs)
    /\ LET t == P.targs[P.i] IN
       /\ t \notin {P.targs[k] : k \in 1..(P.i - 1)}
       /\ P.tok = 1 /\ ~(P.err # 0 /\ ~P.keep)
       /\ ~P.unl /\ t \notin P.cyc /\ locks[t] = NoPid
       /\ t \in {ran[i] : i \in 1..Len(ran)}
       /\ w' = FromName(w, t)
       /\ procs' = [procs EXCEPT ![p] = [P EXCEPT !.i = P.i + 1, !.queue = Append(@, t)]]
    /\ UNCHANGED <<fs, tmp, clock, runid, locks, cmd, hist, ran, ncmds, pool, gh>>

\* JobServer::is_running: children not yet reaped
NoneRunning(P) == \A j \in P.jobs : j.st # "run"

\* pass 2: targets that were locked by someone else in pass 1
Pass2(p) ==
    LET P == procs[p] IN
    /\ P.kind = "redo" /\ P.pc = "pass2"
    \* wait_all has returned (no child is running) and the completion handlers of all finished jobs have been run
    \* (`while let Some(Some(())) = job_futures.next().now_or_never() {}`, fix 642c3b3): their results are recorded, their
    \* locks released and a failure among them is known before the next locked target is taken from the queue
    /\ P.queue # << >> /\ P.jobs = {}
    /\ ~(P.err # 0 /\ ~P.keep)
    /\ P.tok = 1
    /\ LET t   == Head(P.queue)
           nxt == [P EXCEPT !.queue = Tail(P.queue)]
       IN
       /\ locks[t] = NoPid                      \* F_SETLKW returns only then
       /\ IF t \in P.cyc THEN ErrorExit(p, 208, w)
          ELSE IF IsFailedRow(Load(w, EnvOf(p), t), P.rid) THEN
             /\ procs' = [procs EXCEPT ![p] = [nxt EXCEPT !.err = 2]]
             /\ UNCHANGED <<fs, tmp, clock, w, runid, locks, cmd, hist, ran, ncmds, pool, gh>>
          ELSE Decide(p, t, w, nxt)

\* block_on (jobserver.rs:414-460): the child's exit is seen, it is reaped and
\* its token re-created.  The completion handler (RecFs, RecCommit) runs later,
\* when the job future is polled -- wait_for may let the foreground go first.
Reap(p, j) ==
    LET P == procs[p]
        c == procs[j.pid]
    IN
    /\ P.kind = "redo" /\ j \in P.jobs /\ j.st = "run"
    /\ Alive(j.pid) /\ c.pc = "done"
    /\ procs' = Kill([procs EXCEPT ![p].jobs = (@ \ {j}) \cup
                          {[j EXCEPT !.st = "exited", !.rv = c.rc, !.std = c.std, !.file = c.file,
                                     !.val = c.val, !.decl = c.decl, !.stamped = c.stamped]},
                                   ![p].tok = 1],
                     {j.pid})
    /\ pool' = IF P.tok = 1 THEN [pool EXCEPT ![Root(p)] = @ + 1] ELSE pool
    /\ UNCHANGED <<fs, tmp, clock, w, runid, locks, cmd, hist, ran, ncmds, gh>>

\* builder.rs:528-563: output written to stdout is first copied to <t>.redo.tmp
\* record_new_state with its one realistic internal failure: output on stdout for a target whose directory does not
\* exist cannot be copied to <t>.redo.tmp: EXIT_BUILD_JOB_ERROR (209), nothing is installed, the target is failed
Outcome(j) ==
    LET o == RecOutcome(j.before, CurStamp(fs, j.t), j.std, j.file, j.rv) IN
    IF o.op = "rename" /\ j.std /\ ~j.file /\ j.t \in NoDir THEN [rv |-> 209, op |-> "none"] ELSE o

NeedsCopy(j) ==
    Outcome(j).op = "rename" /\ j.std /\ ~j.file

RecCopy(p, j) ==
    LET P == procs[p] IN
    /\ P.kind = "redo" /\ j \in P.jobs /\ j.k = "self" /\ j.st = "exited" /\ NeedsCopy(j)
    /\ tmp' = AddTmp(tmp, j.t, "f")
    /\ procs' = [procs EXCEPT ![p].jobs = (@ \ {j}) \cup {[j EXCEPT !.st = "copied"]}]
    /\ UNCHANGED <<fs, clock, w, runid, locks, cmd, hist, ran, ncmds, pool, gh>>

\* rename(tmp, t) fails when t is a (non-empty) directory (EISDIR / ENOTEMPTY) or when the temporary output is a
\* directory and t is a file (ENOTDIR): EXIT_BUILD_JOB_ERROR (209), nothing is installed
RenameFails(t) == fs[t].ex /\ (fs[t].dir \/ TmpDir(t))

\* builder.rs:499-584: the file operation of record_new_state
RecFs(p, j) ==
    LET P == procs[p]
        out == Outcome(j)
    IN
    /\ P.kind = "redo" /\ j \in P.jobs /\ j.k = "self"
    /\ (j.st = "exited" /\ ~NeedsCopy(j)) \/ j.st = "copied"
    /\ IF out.op = "rename" /\ ~RenameFails(j.t) THEN
          /\ fs' = [fs EXCEPT ![j.t] = [ex |-> TRUE, val |-> j.val, ver |-> clock + 1, own |-> "redo",
                                        dir |-> TmpDir(j.t), lnk |-> ""]]
          /\ clock' = clock + 1
       ELSE IF out.op = "unlink" /\ ~fs[j.t].dir THEN      \* (EISDIR is tolerated: a directory made at $1 stays)
          /\ fs' = [fs EXCEPT ![j.t] = Absent]
          /\ UNCHANGED clock
       ELSE UNCHANGED <<fs, clock>>
    \* (after a failure, also of the rename, whatever is at $3 is removed: builder.rs:623-634)
    /\ tmp' = DelTmp(tmp, j.t)
    /\ procs' = [procs EXCEPT ![p].jobs = (@ \ {j}) \cup
                     {[j EXCEPT !.st = "fs", !.rv = IF out.op = "rename" /\ RenameFails(j.t) THEN 209 ELSE out.rv]}]
    /\ UNCHANGED <<w, runid, locks, cmd, hist, ran, ncmds, pool, gh>>

\* builder.rs:585-636 + commit + Lock drop
RecCommit(p, j) ==
    LET P == procs[p] IN
    /\ P.kind = "redo" /\ j \in P.jobs /\ j.k = "self" /\ j.st = "fs"
    /\ w' = RecordRow(w, EnvOf(p), j.t, j.sf, j.rv)
    /\ locks' = IF locks[j.t] = p THEN [locks EXCEPT ![j.t] = NoPid] ELSE locks
    /\ procs' = [procs EXCEPT ![p].jobs = @ \ {j},
                              ![p].err = IF j.rv # 0 THEN 1 ELSE @]
    /\ gh' = IF j.rv # 0
             THEN [gh EXCEPT !.fails = @ \cup {j.t}, !.seen[j.t].built = FALSE, !.codes = @ \cup {j.rv}]
             ELSE LET old  == gh.seen[j.t]
                      same == j.stamped /\ old.built /\ old.stamped /\ old.val = ReadVal(j.t)
                      g1   == IF same THEN old.out ELSE gh.cg[j.t] + 1   \* same content: same generation as before
                      hi   == {Cands[j.t][i] : i \in {i \in 1..Len(Cands[j.t]) :
                                   \A k \in 1..i : Cands[j.t][k] # j.df}}
                      deps == {[m |-> d.m, n |-> d.n, g |-> IF d.n = ALWAYS THEN 0 ELSE gh.cg[d.n]] : d \in j.decl}
                              \cup {[m |-> "m", n |-> j.df, g |-> gh.cg[j.df]]}
                              \cup {[m |-> "c", n |-> c, g |-> 0] : c \in hi}
                  IN [gh EXCEPT !.cg[j.t] = g1, !.src = @ \ {j.t},
                                !.seen[j.t] = [built |-> TRUE, out |-> g1, deps |-> deps,
                                               stamped |-> j.stamped, val |-> ReadVal(j.t)]]
    /\ UNCHANGED <<fs, tmp, clock, runid, cmd, hist, ran, ncmds, pool>>

\* a redo-unlocked job ended: nothing to record, the lock is dropped
UnlDone(p, j) ==
    LET P == procs[p] IN
    /\ P.kind = "redo" /\ j \in P.jobs /\ j.k \in {"unl", "imm"} /\ j.st = "exited"
    /\ locks' = IF j.k = "unl" /\ locks[j.t] = p THEN [locks EXCEPT ![j.t] = NoPid] ELSE locks
    /\ procs' = [procs EXCEPT ![p].jobs = @ \ {j},
                              ![p].err = IF j.rv = 0 THEN @
                                         ELSE IF j.k = "imm" /\ j.rv \in {32, 208} THEN j.rv   \* the error itself
                                         ELSE 1]
    /\ UNCHANGED <<fs, tmp, clock, w, runid, cmd, hist, ran, ncmds, pool, gh>>

\* ensure_token: take a free token from the pool when about to consider a target
Acquire(p) ==
    LET P == procs[p] IN
    /\ P.kind = "redo" /\ P.tok = 0 /\ pool[Root(p)] > 0
    /\ \/ P.pc = "pass1" /\ P.i <= Len(P.targs)
       \/ P.pc = "pass2" /\ P.queue # << >> /\ P.jobs = {}
    /\ procs' = [procs EXCEPT ![p].tok = 1]
    /\ pool' = [pool EXCEPT ![Root(p)] = @ - 1]
    /\ UNCHANGED <<fs, tmp, clock, w, runid, locks, cmd, hist, ran, ncmds, gh>>

\* wait_all: give up the own token while jobs are still running
Release(p) ==
    LET P == procs[p] IN
    /\ P.kind = "redo" /\ P.pc = "pass2" /\ P.tok = 1 /\ ~NoneRunning(P)
    /\ procs' = [procs EXCEPT ![p].tok = 0]
    /\ pool' = [pool EXCEPT ![Root(p)] = @ + 1]
    /\ UNCHANGED <<fs, tmp, clock, w, runid, locks, cmd, hist, ran, ncmds, gh>>

Finish(p) ==
    LET P == procs[p] IN
    /\ P.kind = "redo" /\ P.pc = "pass2" /\ P.jobs = {} /\ P.tok = 1
    /\ P.queue = << >> \/ (P.err # 0 /\ ~P.keep)
    /\ procs' = [procs EXCEPT ![p].pc = "done", ![p].rc = P.err]
    /\ UNCHANGED <<fs, tmp, clock, w, runid, locks, cmd, hist, ran, ncmds, pool, gh>>

(***************************************************************************)
(* .do scripts (sh -e)                                                     *)
(***************************************************************************)
OpsOf(S) == LET ops == Rules[S.df][S.dv][S.t] IN [i \in 1..Len(ops) |-> [ops[i] EXCEPT !.args = NormSeq(@)]]

SubRedo(S, s, targs, unl, oob, tgt, cyc) ==
    [ProcDefaults EXCEPT !.kind = "redo", !.par = s, !.pc = "declare", !.rid = S.rid,
                         !.keep = S.keep, !.targs = targs, !.tgt = tgt, !.unl = unl,
                         !.oob = oob, !.cyc = cyc, !.tok = 1]

ScriptStep(s) ==
    LET S == procs[s] IN
    /\ S.kind = "script" /\ S.pc = "run" /\ S.kid = NoPid
    /\ IF S.opi > Len(OpsOf(S)) THEN
          /\ procs' = [procs EXCEPT ![s].pc = "done", ![s].rc = 0]
          /\ UNCHANGED <<fs, tmp, clock, w, runid, locks, cmd, hist, ran, ncmds, pool, gh>>
       ELSE
          LET o   == OpsOf(S)[S.opi]
              e   == EnvOf(s)
              nxt == [S EXCEPT !.opi = S.opi + 1]
              \* `watch x` is the idiom: if x exists, redo-ifchange x, else redo-ifcreate x
              \* `ifchangeif f src x...` is a dependency list computed from data (redo-ifchange $(cat list)): the
              \* script asks for x... unless what it reads in f was made from the first version of the source src
              op  == IF o.op = "watch"
                     THEN (IF Exists(fs, o.args[1]) THEN "ifchange" ELSE "ifcreate")
                     ELSE IF o.op = "ifchangeif"
                     THEN (IF FromFirst(ReadVal(o.args[1]), o.args[2]) THEN "skip" ELSE "ifchange")
                     ELSE o.op
              oa  == IF o.op = "ifchangeif" THEN SubSeq(o.args, 3, Len(o.args)) ELSE o.args
          IN
          CASE op = "ifchange" ->
                 LET k == s \o <<ToString(S.opi)>> IN
                 /\ procs' = Spawn([procs EXCEPT ![s].kid = k, ![s].tok = 0,
                                      ![s].decl = @ \cup {[m |-> "m", n |-> oa[i]] : i \in 1..Len(oa)}], k,
                                   SubRedo(S, s, oa, FALSE, FALSE, S.t, S.cyc))
                 /\ UNCHANGED <<fs, tmp, clock, w, runid, locks, cmd, hist, ran, ncmds, pool, gh>>
            \* ("mkdirp": the script makes the directory of its target, mkdir -p $(dirname $1): directories are not part of the
            \* state, the step changes nothing here; the harness starts such programs without that directory)
            [] op \in {"skip", "mkdirp"} ->
                 /\ procs' = [procs EXCEPT ![s] = nxt]
                 /\ UNCHANGED <<fs, tmp, clock, w, runid, locks, cmd, hist, ran, ncmds, pool, gh>>
            [] op = "redo" ->
                 \* a forced `redo args` inside the script (no dependency is declared); with ch = "ignore" the
                 \* script goes on when it fails (`redo x || true`)
                 LET k == s \o <<ToString(S.opi)>> IN
                 /\ procs' = Spawn([procs EXCEPT ![s].kid = k, ![s].tok = 0], k,
                                   [SubRedo(S, s, o.args, FALSE, FALSE, "", S.cyc) EXCEPT !.forced = TRUE])
                 /\ gh' = [gh EXCEPT !.inner = @ \cup {o.args[i] : i \in 1..Len(o.args)}]
                 /\ UNCHANGED <<fs, tmp, clock, w, runid, locks, cmd, hist, ran, ncmds, pool>>
            [] op = "touch" ->
                 \* a side file redo knows nothing about (it is nobody's dependency)
                 /\ fs' = [fs EXCEPT ![o.args[1]] = [ex |-> TRUE, val |-> [n |-> o.args[1], k |-> "side", v |-> 0, d |-> <<>>],
                                                    ver |-> clock + 1, own |-> "script", dir |-> FALSE, lnk |-> ""]]
                 /\ clock' = clock + 1
                 /\ procs' = [procs EXCEPT ![s] = nxt]
                 /\ gh' = Bump(o.args[1])
                 /\ UNCHANGED <<tmp, w, runid, locks, cmd, hist, ran, ncmds, pool>>
            [] op = "failif" ->
                 \* exit o.rc if the side file exists
                 /\ procs' = [procs EXCEPT ![s] = IF fs[o.args[1]].ex THEN [S EXCEPT !.pc = "done", !.rc = o.rc] ELSE nxt]
                 /\ UNCHANGED <<fs, tmp, clock, w, runid, locks, cmd, hist, ran, ncmds, pool, gh>>
            [] op = "ifcreate" ->
                 \* ifcreate.rs: an existing path is an error before the edge is added
                 LET F[k \in 0..Len(o.args)] ==
                        IF k = 0 THEN [w |-> FromName(w, S.t), ok |-> TRUE]
                        ELSE IF ~F[k-1].ok THEN F[k-1]
                        ELSE IF Exists(fs, o.args[k]) THEN [w |-> F[k-1].w, ok |-> FALSE]
                        ELSE [w |-> AddDep(F[k-1].w, S.t, "c", o.args[k]), ok |-> TRUE]
                     r == F[Len(o.args)]
                 IN
                 \* on the error the transaction is dropped: nothing is committed
                 /\ w' = IF r.ok THEN r.w ELSE w
                 /\ procs' = [procs EXCEPT ![s] =
                                 IF r.ok THEN [nxt EXCEPT !.decl = @ \cup {[m |-> "c", n |-> o.args[i]] : i \in 1..Len(o.args)}]
                                 ELSE [S EXCEPT !.pc = "done", !.rc = 1]]
                 /\ UNCHANGED <<fs, tmp, clock, runid, locks, cmd, hist, ran, ncmds, pool, gh>>
            [] op = "always" ->
                 LET w1 == AddDep(FromName(w, S.t), S.t, "m", ALWAYS)
                     r  == SetChanged([Load(w1, e, ALWAYS) EXCEPT !.stamp = Missing], S.rid)
                 IN
                 /\ w' = Save(w1, ALWAYS, r)
                 /\ procs' = [procs EXCEPT ![s] = [nxt EXCEPT !.decl = @ \cup {[m |-> "m", n |-> ALWAYS]}]]
                 /\ UNCHANGED <<fs, tmp, clock, runid, locks, cmd, hist, ran, ncmds, pool, gh>>
            [] op = "stamp" ->
                 LET w1 == FromName(w, S.t)
                     r0 == Load(w1, e, S.t)
                     r1 == SetGenerated(r0)
                     r2 == IF S.val # r0.csum THEN [SetChanged(r1, S.rid) EXCEPT !.csum = S.val]
                           ELSE SetChecked(r1, S.rid)
                 IN
                 /\ w' = Save(w1, S.t, r2)
                 /\ procs' = [procs EXCEPT ![s] = [nxt EXCEPT !.stamped = TRUE]]
                 /\ UNCHANGED <<fs, tmp, clock, runid, locks, cmd, hist, ran, ncmds, pool, gh>>
            [] op = "out" ->
                 \* o.rc # 0 is a content tag: rule versions with the same tag write equal bytes
                 LET val == [n |-> S.t, k |-> S.df, v |-> IF o.rc # 0 THEN o.rc ELSE S.dv,
                             d |-> [i \in 1..Len(o.args) |-> ReadVal(o.args[i])]]
                 IN
                 /\ procs' = [procs EXCEPT ![s] = [nxt EXCEPT !.val = val,
                                 !.std  = (@ \/ o.ch \in {"stdout", "both"}),
                                 !.file = (@ \/ o.ch \in {"file", "both", "filedir", "dirout"})]]
                 \* ("filedir": $3 created as an empty directory by a rule that fails afterwards; "dirout": $3 created as
                 \* a directory holding the output, by a rule that may succeed)
                 /\ tmp' = IF o.ch \in {"file", "both"} THEN AddTmp(tmp, S.t, "f")
                           ELSE IF o.ch \in {"filedir", "dirout"} THEN AddTmp(tmp, S.t, "d") ELSE tmp
                 \* "directold": written to $1 and given an old mtime (cp -p): any different stamp counts as modified
                 \* "dirdirect": rm -rf $1; mkdir $1; output inside (the idiom for directory targets)
                 /\ IF o.ch \in {"direct", "directold", "dirdirect"} THEN
                       /\ fs' = [fs EXCEPT ![S.t] = [ex |-> TRUE, val |-> val, ver |-> clock + 1,
                                                     own |-> "script", dir |-> (o.ch = "dirdirect"), lnk |-> ""]]
                       /\ clock' = clock + 1
                       /\ gh' = Bump(S.t)
                    ELSE UNCHANGED <<fs, clock, gh>>
                 /\ UNCHANGED <<w, runid, locks, cmd, hist, ran, ncmds, pool>>
            [] op = "exit" ->
                 /\ procs' = [procs EXCEPT ![s].pc = "done", ![s].rc = o.rc]
                 /\ UNCHANGED <<fs, tmp, clock, w, runid, locks, cmd, hist, ran, ncmds, pool, gh>>

\* the redo-ifchange a script was waiting for has ended
ScriptResume(s) ==
    LET S == procs[s] IN
    /\ S.kind \in {"script", "unlocked"} /\ S.pc = "run" /\ S.kid # NoPid
    /\ Alive(S.kid) /\ procs[S.kid].pc = "done"
    /\ LET rc == procs[S.kid].rc
           ign == S.kind = "script" /\ S.opi <= Len(OpsOf(S)) /\ OpsOf(S)[S.opi].ch = "ignore"
       IN
       procs' = Kill([procs EXCEPT ![s] = IF rc # 0 /\ ~ign THEN [S EXCEPT !.pc = "done", !.rc = rc, !.kid = NoPid, !.tok = 1]
                                          ELSE [S EXCEPT !.opi = S.opi + 1, !.kid = NoPid, !.tok = 1]],
                     {S.kid})
    /\ UNCHANGED <<fs, tmp, clock, w, runid, locks, cmd, hist, ran, ncmds, pool, gh>>

\* redo-unlocked (unlocked.rs): phase 1 builds the uncertain dependencies with
\* REDO_NO_OOB; phase 2 re-decides the target itself with REDO_UNLOCKED.
UnlockedStep(u) ==
    LET U == procs[u] IN
    /\ U.kind = "unlocked" /\ U.pc = "run" /\ U.kid = NoPid
    /\ IF U.opi > 2 THEN
          procs' = [procs EXCEPT ![u].pc = "done", ![u].rc = 0]
       ELSE
          LET k == u \o <<ToString(U.opi)>>
              targs == IF U.opi = 1 \/ UnlockedBug THEN U.targs ELSE <<U.t>>
          IN procs' = Spawn([procs EXCEPT ![u].kid = k, ![u].tok = 0], k,
                            SubRedo(U, u, targs, U.opi = 2, TRUE, U.tgt, U.cyc))
    /\ UNCHANGED <<fs, tmp, clock, w, runid, locks, cmd, hist, ran, ncmds, pool, gh>>

\* a script whose redo parent is gone (abandoned by an error exit) is reaped by init
OrphanReap(s) ==
    /\ procs[s].kind \in {"script", "unlocked"} /\ procs[s].pc = "done"
    /\ IF Alive(procs[s].par) THEN procs[procs[s].par].pc = "done" ELSE TRUE
    /\ procs' = Kill(procs, {s})
    /\ UNCHANGED <<fs, tmp, clock, w, runid, locks, cmd, hist, ran, ncmds, pool, gh>>

(***************************************************************************)
(***************************************************************************)
(* Kills (C10).  A killed process leaves everything committed so far, its   *)
(* locks are released by the kernel, uncommitted work is lost.             *)
(***************************************************************************)
InWindow == \E p \in DOMAIN procs : \E j \in procs[p].jobs : j.st = "fs"
InStampWindow ==
    \/ \E p \in DOMAIN procs : procs[p].kind = "script" /\ procs[p].stamped
    \/ \E p \in DOMAIN procs : \E j \in procs[p].jobs : j.k = "self" /\ j.stamped
CanCrash == cmd.kind \in {"ifchange", "redo"} /\ cmd.c2.kind = "none" /\ gh.crashes < MaxCrash /\ DOMAIN procs # {}
            /\ (CrashWindow \/ ~InWindow) /\ (StampWindow \/ ~InStampWindow)

\* SIGKILL of the whole process tree
CrashTree ==
    /\ CanCrash
    /\ ~(DOMAIN procs = {Top} /\ procs[Top].pc = "done")
    /\ procs' = << >>
    /\ locks' = [n \in Plain |-> NoPid]
    /\ cmd' = Idle
    /\ ran' = << >>
    /\ pool' = [r \in {Top, Top2} |-> 0]
    /\ gh' = [gh EXCEPT !.crashes = @ + 1, !.crashNow = TRUE]
    /\ hist' = Append(hist, [a |-> "crash", kind |-> cmd.kind, targs |-> cmd.targs, keep |-> cmd.keep,
                             j |-> cmd.j, cwd |-> cmd.cwd, who |-> "tree", snap |-> Snapshot])
    /\ UNCHANGED <<fs, tmp, clock, w, runid, ncmds>>

\* an abandoned script that will still run redo-stamp reaches the stamp window later
WillStamp(p) ==
    \E j \in procs[p].jobs : j.k = "self" /\ j.st = "run" /\ Alive(j.pid) /\
        LET S == procs[j.pid] IN
        \E i \in S.opi..Len(Rules[S.df][S.dv][S.t]) : Rules[S.df][S.dv][S.t][i].op = "stamp"

\* SIGKILL of one redo process: like an error return, its jobs are abandoned and keep
\* running; a script waiting for it sees status 137
CrashOne(p) ==
    /\ CanCrash
    /\ StampWindow \/ ~WillStamp(p)
    /\ procs[p].kind = "redo" /\ procs[p].pc # "done"
    /\ procs' = [procs EXCEPT ![p].pc = "done", ![p].rc = IF p = Top THEN -9 ELSE 137, ![p].jobs = {}]
    /\ locks' = ReleaseAll(locks, p)
    /\ gh' = [gh EXCEPT !.crashes = @ + 1, !.crashNow = TRUE]
    /\ UNCHANGED <<fs, tmp, clock, w, runid, cmd, hist, ran, ncmds, pool>>

\* one named action per atomic unit, so that TLC's coverage reports each
DeclareA    == \E p \in DOMAIN procs : Declare(p)
ConsiderA   == \E p \in DOMAIN procs : Consider(p) \/ ConsiderProbe(p)
Pass2A      == \E p \in DOMAIN procs : Pass2(p)
FinishA     == \E p \in DOMAIN procs : Finish(p)
AcquireA    == \E p \in DOMAIN procs : Acquire(p)
ReleaseA    == \E p \in DOMAIN procs : Release(p)
ReapA       == \E p \in DOMAIN procs : \E j \in procs[p].jobs : Reap(p, j)
RecCopyA    == \E p \in DOMAIN procs : \E j \in procs[p].jobs : RecCopy(p, j)
RecFsA      == \E p \in DOMAIN procs : \E j \in procs[p].jobs : RecFs(p, j)
RecCommitA  == \E p \in DOMAIN procs : \E j \in procs[p].jobs : RecCommit(p, j)
UnlDoneA    == \E p \in DOMAIN procs : \E j \in procs[p].jobs : UnlDone(p, j)
ScriptStepA == \E p \in DOMAIN procs : ScriptStep(p)
ScriptResumeA == \E p \in DOMAIN procs : ScriptResume(p)
UnlockedStepA == \E p \in DOMAIN procs : UnlockedStep(p)
OrphanReapA == \E p \in DOMAIN procs : OrphanReap(p)
InitRunA    == \E p \in DOMAIN procs : InitRun(p) \/ QueryRun(p)
UnlinkStaleA == \E p \in DOMAIN procs : UnlinkStale(p)

ProcStep ==
    \/ DeclareA \/ ConsiderA \/ Pass2A \/ FinishA \/ AcquireA \/ ReleaseA
    \/ ReapA \/ RecCopyA \/ RecFsA \/ RecCommitA \/ UnlDoneA
    \/ ScriptStepA \/ ScriptResumeA \/ UnlockedStepA \/ OrphanReapA \/ InitRunA \/ UnlinkStaleA

UserStep ==
    \/ \E n \in UserFiles : UserWrite(n)
    \/ \E n \in RmFiles : UserRemove(n)
    \/ \E n \in TmpFiles : \E k \in {"f", "l"} : UserTmp(n, k)
    \/ \E n \in DOMAIN Links : \E i \in 1..Len(Links[n]) : UserRelink(n, Links[n][i])
    \/ \E df \in DoEdits : DoEdit(df) \/ DoRemove(df) \/ DoAdd(df)
    \/ \E c \in Cmds : StartBuild(c) \/ Query(c)
    \/ \E pr \in Pairs : StartPar(pr)

Next ==
    \/ DeclareA \/ ConsiderA \/ Pass2A \/ FinishA \/ AcquireA \/ ReleaseA
    \/ ReapA \/ RecCopyA \/ RecFsA \/ RecCommitA \/ UnlDoneA
    \/ ScriptStepA \/ ScriptResumeA \/ UnlockedStepA \/ OrphanReapA \/ InitRunA \/ UnlinkStaleA
    \/ EndBuild \/ EndPar \/ UserStep
    \/ CrashTree \/ \E p \in DOMAIN procs : CrashOne(p)

Spec == Init /\ [][Next]_vars

=============================================================================
