------------------------------- MODULE RedoMeta -------------------------------
(***************************************************************************)
(* The structured log record of redo-rs (logs.rs:448-598), C18 record part *)
(*                                                                         *)
(*   @@REDO:<kind>:<pid>:<timestamp>@@ <text>                              *)
(*                                                                         *)
(* Format and Parse are transcribed over sequences of one-character        *)
(* strings; numbers are kept as digit strings (the specification does not  *)
(* re-implement float formatting: a timestamp is the digit string that     *)
(* `{:.4}` produced).  TLC checks Parse(Format(r)) = r for every record of *)
(* the family and computes Parse on every near-miss line over a small      *)
(* alphabet; lib/logcheck.py compares Meta::parse (through vfun) with the  *)
(* exported table.                                                         *)
(***************************************************************************)
EXTENDS Naturals, Integers, Sequences, FiniteSets, TLC

Prefix == <<"@", "@", "R", "E", "D", "O", ":">>
SepS   == <<"@", "@", " ">>

StartsWith(s, pre) == Len(s) >= Len(pre) /\ SubSeq(s, 1, Len(pre)) = pre

\* index of the first occurrence of pat in s at or after position i, 0 if none
RECURSIVE Find(_, _, _)
Find(s, pat, i) == IF i + Len(pat) - 1 > Len(s) THEN 0
                   ELSE IF SubSeq(s, i, i + Len(pat) - 1) = pat THEN i ELSE Find(s, pat, i + 1)

RECURSIVE SplitOn(_, _, _, _)
SplitOn(s, c, i, cur) == IF i > Len(s) THEN <<cur>>
                         ELSE IF s[i] = c THEN <<cur>> \o SplitOn(s, c, i + 1, << >>)
                         ELSE SplitOn(s, c, i + 1, Append(cur, s[i]))

Digits == {"0", "1", "2", "3", "4", "5", "6", "7", "8", "9"}
IsInt(w)   == w # << >> /\ LET body == IF w[1] \in {"-", "+"} THEN Tail(w) ELSE w
                           IN body # << >> /\ \A i \in 1..Len(body) : body[i] \in Digits
\* what str::parse::<f64> accepts among the strings of the alphabets used here: digits with at most one dot
IsFloat(w) == w # << >> /\ LET body == IF w[1] \in {"-", "+"} THEN Tail(w) ELSE w
                               dots == {i \in 1..Len(body) : body[i] = "."}
                           IN /\ body # << >> /\ body # <<".">>
                              /\ Cardinality(dots) <= 1
                              /\ \A i \in 1..Len(body) : body[i] \in Digits \cup {"."}

Format(r) == Prefix \o r.kind \o <<":">> \o r.pid \o <<":">> \o r.ts \o SepS \o r.text

\* Meta::parse (logs.rs:482-540); the error cases in the order the code tests them
Parse(s) ==
    IF ~StartsWith(s, Prefix) THEN [ok |-> FALSE, why |-> "prefix"]
    ELSE LET rest == SubSeq(s, Len(Prefix) + 1, Len(s))
             e == Find(rest, SepS, 1)
         IN IF e = 0 THEN [ok |-> FALSE, why |-> "unterminated"]
            ELSE LET meta == SubSeq(rest, 1, e - 1)
                     text == SubSeq(rest, e + Len(SepS), Len(rest))
                     words == SplitOn(meta, ":", 1, << >>)
                 IN IF \E i \in 1..Len(meta) : meta[i] = "@" THEN [ok |-> FALSE, why |-> "at"]
                    ELSE IF Len(words) < 2 THEN [ok |-> FALSE, why |-> "nopid"]
                    ELSE IF ~IsInt(words[2]) THEN [ok |-> FALSE, why |-> "pid"]
                    ELSE IF Len(words) < 3 THEN [ok |-> FALSE, why |-> "nots"]
                    ELSE IF ~IsFloat(words[3]) THEN [ok |-> FALSE, why |-> "ts"]
                    ELSE [ok |-> TRUE, kind |-> words[1], pid |-> words[2], ts |-> words[3], text |-> text]

\* `done` records: "<rv> <name>" (logs.rs:563-585)
DoneText(text) ==
    LET i == Find(text, <<" ">>, 1) IN
    IF i = 0 THEN [ok |-> FALSE]
    ELSE IF ~IsInt(SubSeq(text, 1, i - 1)) THEN [ok |-> FALSE]
    ELSE [ok |-> TRUE, rv |-> SubSeq(text, 1, i - 1), name |-> SubSeq(text, i + 1, Len(text))]

RoundTrip(r) == LET p == Parse(Format(r)) IN
                p.ok /\ p.kind = r.kind /\ p.pid = r.pid /\ p.ts = r.ts /\ p.text = r.text
=============================================================================
