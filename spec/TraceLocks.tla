------------------------------ MODULE TraceLocks ------------------------------
(***************************************************************************)
(* C06 on recorded executions: target locks, build scripts and the         *)
(* recording of their results, across all redo processes that share one    *)
(* .redo directory.                                                        *)
(*                                                                         *)
(* The trace (environment variable TRACE) is the projection of the hook    *)
(* events of one stress run onto                                           *)
(*   Take / Rel        fcntl write lock on byte fid obtained / about to be *)
(*                     released (logged after / before the system call)    *)
(*   Verdict, Start    a process decided about target fid / started its    *)
(*                     script                                              *)
(*   SBegin / SEnd     the script itself, logged by the script after it    *)
(*                     began / before it ends                              *)
(*   Rec, Commit       result of the script recorded / transaction         *)
(*                     committed (logged before the COMMIT)                *)
(*   Exit              process exit (the kernel drops its locks)           *)
(* in file order, which by the logging rule is a sound order: an overlap   *)
(* or a decision outside the lock in the trace is one in reality.          *)
(*                                                                         *)
(* The specification is the lock protocol of builder.rs: decide only under *)
(* the lock (or as the redo-unlocked delegate of the holder), hold it from *)
(* before the script starts until its result is committed, one script per  *)
(* target at a time.                                                       *)
(***************************************************************************)
EXTENDS Naturals, Sequences, FiniteSets, TLC, Json, IOUtils

Rec == ndJsonDeserialize(IOEnv.TRACE)

VARIABLES
    l,
    lock,     \* [fid -> holder pid]  (only held locks are in the domain)
    run,      \* [fid -> set of script pids between SBegin and SEnd]
    pend,     \* [pid -> [fid -> "started" | "recorded"]] results this process still owes
    fresh,    \* [pid -> file ids whose row this process has read since it last obtained their lock]
    gone,     \* pids that will never log again without having logged Exit (killed / panicked)
    runt,     \* [target name as the script itself reports it -> set of script pids between SBegin and SEnd]
    busy,     \* [pid -> targets this builder found locked by somebody else and has not examined under their lock since]
    bad       \* "" or why the last event breaks the protocol

vars == <<l, lock, run, pend, fresh, gone, runt, busy, bad>>

Init == l = 1 /\ lock = << >> /\ run = << >> /\ pend = << >> /\ fresh = << >> /\ gone = {} /\ runt = << >> /\ busy = << >> /\ bad = ""

e == Rec[l]

Holder(f) == IF f \in DOMAIN lock THEN lock[f] ELSE 0
Put(fn, k, v) == [x \in DOMAIN fn \cup {k} |-> IF x = k THEN v ELSE fn[x]]
Drop(fn, k) == [x \in DOMAIN fn \ {k} |-> fn[x]]
Get(fn, k, dflt) == IF k \in DOMAIN fn THEN fn[k] ELSE dflt
Owes(p) == Get(pend, p, << >>)

\* p may decide about / build f: it holds the lock, or it runs with REDO_UNLOCKED for a holder among its ancestors
MayTouch(p, f, unl, anc) == Holder(f) = p \/ (unl /\ Holder(f) # 0 /\ Holder(f) \in {anc[i] : i \in 1..Len(anc)})

Check ==
    CASE e.ev = "Reset"   -> ""
      [] e.ev = "Take"    -> IF Holder(e.fid) \notin {0, e.pid} /\ Holder(e.fid) \notin gone
                             THEN "lock granted while another live process holds it" ELSE ""
      [] e.ev = "Rel"     -> IF Holder(e.fid) # e.pid THEN ""      \* releasing a lock it does not hold is a no-op
                             ELSE IF e.fid \in DOMAIN Owes(e.pid)
                             THEN "lock released before the result of its job was committed"
                             ELSE IF Get(run, e.fid, {}) # {} THEN "lock released while the script is still running"
                             ELSE ""
      [] e.ev = "Verdict" -> IF ~MayTouch(e.pid, e.fid, e.unl, e.anc) THEN "decision about a target without its lock"
                             \* the result of an earlier execution is recorded before anybody else decides: the decision must
                             \* be taken on a record read after the lock was obtained, not on a copy from before
                             ELSE IF e.fid \notin Get(fresh, e.pid, {}) THEN "decision on a record that was not re-read after the lock was obtained"
                             ELSE ""
      [] e.ev = "Load"    -> ""
      [] e.ev = "Start"   -> IF ~MayTouch(e.pid, e.fid, e.unl, e.anc) THEN "script started without the lock"
                             ELSE IF Get(run, e.fid, {}) # {} THEN "script started while another one runs for the same target"
                             ELSE ""
      [] e.ev = "SBegin"  -> IF Get(run, e.fid, {}) # {} THEN "two scripts of one target overlap"
                             \* the same by the name the script itself reports (two records / two locks for one file would
                             \* escape a check by file id)
                             ELSE IF e.t # "" /\ Get(runt, e.t, {}) # {} THEN "two scripts of one target (by name) overlap"
                             ELSE IF ~MayTouch(e.par, e.fid, e.unl, e.anc) THEN "script runs while its starter does not hold the lock"
                             ELSE ""
      [] e.ev = "SEnd"    -> ""
      [] e.ev = "Wait"    -> \* F_SETLKW: never while holding a target lock or owing a result (deadlock freedom)
                             IF \E f \in DOMAIN lock : lock[f] = e.pid THEN "blocking lock wait while holding another target's lock"
                             ELSE IF Owes(e.pid) # << >> THEN "blocking lock wait before the results of the own jobs are recorded"
                             ELSE ""
      [] e.ev = "Rec"     -> IF MayTouch(e.pid, e.fid, e.unl, e.anc) THEN "" ELSE "result recorded without the lock"
      [] e.ev = "Commit"  -> ""
      [] e.ev = "Busy"    -> ""
      [] e.ev = "Exit"    -> IF \E f \in DOMAIN lock : lock[f] = e.pid /\ Get(run, f, {}) # {}
                             THEN "process exits (dropping its locks) while a script it started is still running"
                             \* builder.rs:759-765, 814-885: a target found locked is queued and decided later under its lock;
                             \* a builder that reports success has done so for every one of them
                             ELSE IF e.rc = 0 /\ Get(busy, e.pid, {}) # {}
                             THEN "builder exits 0 although a target it found locked was never examined under its lock"
                             ELSE ""
      [] OTHER -> "unknown event"

Step ==
    CASE e.ev = "Reset" ->
            /\ lock' = << >> /\ run' = << >> /\ pend' = << >>
            /\ gone' = {e.gone[i] : i \in 1..Len(e.gone)}
      [] e.ev = "Take" ->
            /\ lock' = Put(lock, e.fid, e.pid)
            /\ fresh' = Put(fresh, e.pid, Get(fresh, e.pid, {}) \ {e.fid})
            /\ UNCHANGED <<run, pend, gone>>
      [] e.ev = "Load" ->
            /\ fresh' = Put(fresh, e.pid, Get(fresh, e.pid, {}) \cup {e.fid})
            /\ UNCHANGED <<lock, run, pend, gone>>
      [] e.ev = "Rel" ->
            /\ lock' = IF Holder(e.fid) = e.pid THEN Drop(lock, e.fid) ELSE lock
            /\ UNCHANGED <<run, pend, gone>>
      [] e.ev = "Start" ->
            /\ pend' = Put(pend, e.pid, Put(Owes(e.pid), e.fid, "started"))
            /\ UNCHANGED <<lock, run, gone>>
      [] e.ev = "SBegin" ->
            /\ run' = Put(run, e.fid, Get(run, e.fid, {}) \cup {e.pid}) /\ UNCHANGED <<lock, pend, gone>>
      [] e.ev = "SEnd" ->
            /\ run' = Put(run, e.fid, Get(run, e.fid, {}) \ {e.pid}) /\ UNCHANGED <<lock, pend, gone>>
      [] e.ev = "Rec" ->
            /\ pend' = IF e.fid \in DOMAIN Owes(e.pid) THEN Put(pend, e.pid, Put(Owes(e.pid), e.fid, "recorded")) ELSE pend
            /\ UNCHANGED <<lock, run, gone>>
      [] e.ev = "Commit" ->
            \* every result recorded in this transaction is now visible to the others
            /\ pend' = Put(pend, e.pid, [f \in {f \in DOMAIN Owes(e.pid) : Owes(e.pid)[f] # "recorded"} |-> Owes(e.pid)[f]])
            /\ UNCHANGED <<lock, run, gone>>
      [] e.ev = "Exit" ->
            /\ lock' = [f \in {f \in DOMAIN lock : lock[f] # e.pid} |-> lock[f]]
            /\ pend' = Drop(pend, e.pid)
            /\ UNCHANGED <<run, gone>>
      [] OTHER -> UNCHANGED <<lock, run, pend, gone>>

Next ==
    /\ l <= Len(Rec) /\ bad = ""
    /\ l' = l + 1
    /\ bad' = Check
    /\ Step
    /\ IF e.ev = "Reset" THEN fresh' = << >>
       ELSE IF e.ev = "Exit" THEN fresh' = Drop(fresh, e.pid)
       ELSE IF e.ev \in {"Take", "Load"} THEN TRUE ELSE UNCHANGED fresh
    /\ runt' = IF e.ev = "Reset" THEN << >>
               ELSE IF e.ev = "SBegin" /\ e.t # "" THEN Put(runt, e.t, Get(runt, e.t, {}) \cup {e.pid})
               ELSE IF e.ev = "SEnd" /\ e.t # "" THEN Put(runt, e.t, Get(runt, e.t, {}) \ {e.pid})
               ELSE runt
    /\ busy' = IF e.ev = "Reset" THEN << >>
               ELSE IF e.ev = "Busy" THEN Put(busy, e.pid, Get(busy, e.pid, {}) \cup {e.fid})
               ELSE IF e.ev = "Take" THEN Put(busy, e.pid, Get(busy, e.pid, {}) \ {e.fid})
               ELSE IF e.ev = "Exit" THEN Drop(busy, e.pid)
               ELSE busy

Spec == Init /\ [][Next]_vars

Accepted == bad = ""
Mutex == /\ \A f \in DOMAIN run : Cardinality(run[f]) <= 1
         /\ \A t \in DOMAIN runt : Cardinality(runt[t]) <= 1

View == <<l, bad>>
Alias == [l |-> l, bad |-> bad, lock |-> lock, run |-> run, pend |-> pend, fresh |-> fresh, busy |-> busy,
          ev |-> IF l > 1 /\ l <= Len(Rec) + 1 THEN Rec[l-1] ELSE << >>]
=============================================================================
