------------------------------- MODULE TraceDb -------------------------------
(***************************************************************************)
(* C16 on recorded executions: the dependency database as a serialisable   *)
(* store.  What RedoSys assumes about SQLite -- every working transaction  *)
(* is one atomic step, writers are serialised by BEGIN IMMEDIATE, run ids  *)
(* are allocated without collisions, a committed write is never lost -- is *)
(* checked on the transaction events of concurrent real commands:          *)
(*   TxBegin{mode}   logged after BEGIN succeeded                          *)
(*   RowSave, DepAdd, Zap1, Zap2    writes inside the open transaction     *)
(*   Commit / Rollback              logged before COMMIT / ROLLBACK        *)
(*   RunStart{runid, toplevel}      start-up transaction, before its commit*)
(*   Census{rows, edges}            the harness read the database when     *)
(*                                  everything had finished                *)
(*   Block{what}     the process waits for something outside itself: a     *)
(*                   blocking lock wait (logged before F_SETLKW), a        *)
(*                   select() on its jobs, the input of redo-stamp (logged *)
(*                   after it was read)                                    *)
(* The specification applies the buffered writes of each transaction at    *)
(* its Commit and demands that the census equals the result.               *)
(***************************************************************************)
EXTENDS Naturals, Integers, Sequences, FiniteSets, TLC, Json, IOUtils

Rec == ndJsonDeserialize(IOEnv.TRACE)

VARIABLES
    l,
    rows,     \* [file id -> committed row]
    edges,    \* committed set of [t, s, m, d]
    tx,       \* [pid -> [mode, rows, edges, touched, loaded]] open transactions (edges = the edge set as this tx sees it;
              \*   loaded = ids of the rows read into memory inside this transaction)
    writer,   \* pid holding the write lock (an open BEGIN IMMEDIATE), 0 = none
    runids,   \* run ids handed out to top-level commands
    gone,     \* pids that die without logging (killed): their open transaction vanishes
    bad

vars == <<l, rows, edges, tx, writer, runids, gone, bad>>

Init == l = 1 /\ rows = << >> /\ edges = {} /\ tx = << >> /\ writer = 0 /\ runids = {} /\ gone = {} /\ bad = ""

e == Rec[l]
Put(fn, k, v) == [x \in DOMAIN fn \cup {k} |-> IF x = k THEN v ELSE fn[x]]
Drop(fn, k) == [x \in DOMAIN fn \ {k} |-> fn[x]]
Open(p) == p \in DOMAIN tx
WriterFree == writer = 0 \/ writer \in gone

RowOf(r) == [gen |-> r.gen, ovr |-> r.ovr, checked |-> r.checked, changed |-> r.changed, failed |-> r.failed,
             stamp |-> r.stamp, csum |-> r.csum]

Check ==
    CASE e.ev = "Reset" -> ""
      [] e.ev = "TxBegin" ->
            IF Open(e.pid) THEN "transaction begun inside a transaction"
            ELSE IF e.mode = "imm" /\ ~WriterFree THEN "two write transactions open at the same time"
            ELSE ""
      [] e.ev \in {"RowSave", "DepAdd", "Zap1", "Zap2"} ->
            IF ~Open(e.pid) THEN "write outside a transaction"
            ELSE IF tx[e.pid].mode # "imm" THEN "write in a transaction that did not take the write lock at its start"
            ELSE ""
      [] e.ev = "RowLoad" -> ""
      [] e.ev = "Decide" ->
            \* C06: the decision whether to build a target is taken on its recorded state -- what the last writer
            \* committed (or this transaction wrote) -- not on a copy read before somebody else recorded a result
            LET view == IF Open(e.pid) /\ e.fid \in DOMAIN tx[e.pid].rows THEN tx[e.pid].rows[e.fid]
                        ELSE IF e.fid \in DOMAIN rows THEN rows[e.fid]
                        ELSE [gen |-> FALSE, ovr |-> FALSE, checked |-> -1, changed |-> -1, failed |-> -1, stamp |-> "", csum |-> ""]
            IN IF RowOf(e) = view THEN "" ELSE "a build decision is taken on a record that is not the recorded one"
      [] e.ev = "Commit" -> IF Open(e.pid) THEN "" ELSE "commit without a transaction"
      [] e.ev = "Rollback" -> ""
      [] e.ev = "RunStart" ->
            IF e.toplevel /\ e.runid \in runids THEN "run id handed out twice"
            ELSE IF e.toplevel /\ runids # {} /\ \E r \in runids : r > e.runid THEN "run id smaller than an earlier one"
            ELSE ""
      \* a write transaction is a short critical section (RedoDb: every holder of the write lock commits after finitely
      \* many of its own steps; the others wait at most the busy timeout): it must not contain a wait for another process
      [] e.ev = "Block" -> IF Open(e.pid) /\ tx[e.pid].mode = "imm"
                           THEN "process waits for something outside itself while it holds the database write lock"
                           ELSE ""
      [] e.ev = "Exit" -> ""
      [] e.ev = "Census" ->
            LET want == {[id |-> i, row |-> rows[i]] : i \in DOMAIN rows}
                have == {[id |-> e.rows[k].id, row |-> RowOf(e.rows[k])] : k \in 1..Len(e.rows)}
                wantE == edges
                haveE == {[t |-> e.edges[k].t, s |-> e.edges[k].s, m |-> e.edges[k].m, d |-> e.edges[k].d] : k \in 1..Len(e.edges)}
            IN IF \E x \in want : x \notin have THEN "a committed row is missing or different in the database"
               ELSE IF wantE # haveE THEN "the dependency edges in the database are not the committed ones"
               ELSE ""
      [] OTHER -> "unknown event"

Step ==
    CASE e.ev = "Reset" ->
            /\ rows' = << >> /\ edges' = {} /\ tx' = << >> /\ writer' = 0 /\ runids' = {}
            /\ gone' = {e.gone[i] : i \in 1..Len(e.gone)}
      [] e.ev = "TxBegin" ->
            /\ tx' = Put(tx, e.pid, [mode |-> e.mode, rows |-> << >>, edges |-> edges, touched |-> FALSE, loaded |-> {}])
            /\ writer' = IF e.mode = "imm" THEN e.pid ELSE writer
            /\ UNCHANGED <<rows, edges, runids, gone>>
      [] e.ev = "RowSave" ->
            /\ tx' = IF Open(e.pid) THEN [tx EXCEPT ![e.pid].rows = Put(@, e.id, RowOf(e))] ELSE tx
            /\ UNCHANGED <<rows, edges, writer, runids, gone>>
      [] e.ev = "RowLoad" ->
            /\ tx' = IF Open(e.pid) THEN [tx EXCEPT ![e.pid].loaded = @ \cup {e.id}] ELSE tx
            /\ UNCHANGED <<rows, edges, writer, runids, gone>>
      [] e.ev = "DepAdd" ->
            /\ tx' = IF Open(e.pid) /\ e.id # e.srcid
                     THEN [tx EXCEPT ![e.pid].edges = {x \in @ : ~(x.t = e.id /\ x.s = e.srcid)}
                                                        \cup {[t |-> e.id, s |-> e.srcid, m |-> e.mode, d |-> FALSE]},
                                     ![e.pid].touched = TRUE]
                     ELSE tx
            /\ UNCHANGED <<rows, edges, writer, runids, gone>>
      [] e.ev = "Zap1" ->
            /\ tx' = IF Open(e.pid)
                     THEN [tx EXCEPT ![e.pid].edges = {IF x.t = e.id THEN [x EXCEPT !.d = TRUE] ELSE x : x \in @},
                                     ![e.pid].touched = TRUE]
                     ELSE tx
            /\ UNCHANGED <<rows, edges, writer, runids, gone>>
      [] e.ev = "Zap2" ->
            /\ tx' = IF Open(e.pid)
                     THEN [tx EXCEPT ![e.pid].edges = {x \in @ : ~(x.t = e.id /\ x.d)}, ![e.pid].touched = TRUE]
                     ELSE tx
            /\ UNCHANGED <<rows, edges, writer, runids, gone>>
      [] e.ev = "Commit" ->
            /\ IF Open(e.pid)
               THEN /\ rows' = [i \in DOMAIN rows \cup DOMAIN tx[e.pid].rows |->
                                  IF i \in DOMAIN tx[e.pid].rows THEN tx[e.pid].rows[i] ELSE rows[i]]
                    /\ edges' = IF tx[e.pid].touched THEN tx[e.pid].edges ELSE edges
               ELSE UNCHANGED <<rows, edges>>
            /\ tx' = Drop(tx, e.pid)
            /\ writer' = IF writer = e.pid THEN 0 ELSE writer
            /\ UNCHANGED <<runids, gone>>
      [] e.ev = "Rollback" ->
            /\ tx' = Drop(tx, e.pid)
            /\ writer' = IF writer = e.pid THEN 0 ELSE writer
            /\ UNCHANGED <<rows, edges, runids, gone>>
      [] e.ev = "RunStart" ->
            /\ runids' = IF e.toplevel THEN runids \cup {e.runid} ELSE runids
            /\ UNCHANGED <<rows, edges, tx, writer, gone>>
      [] e.ev = "Exit" ->
            /\ tx' = Drop(tx, e.pid)
            /\ writer' = IF writer = e.pid THEN 0 ELSE writer
            /\ UNCHANGED <<rows, edges, runids, gone>>
      [] OTHER -> UNCHANGED <<rows, edges, tx, writer, runids, gone>>

Next ==
    /\ l <= Len(Rec) /\ bad = ""
    /\ l' = l + 1
    /\ bad' = Check
    /\ Step

Spec == Init /\ [][Next]_vars

Accepted == bad = ""

View == <<l, bad>>
Alias == [l |-> l, bad |-> bad, writer |-> writer, open |-> DOMAIN tx, runids |-> runids,
          ev |-> IF l > 1 /\ l <= Len(Rec) + 1 THEN Rec[l-1] ELSE << >>]
=============================================================================
