------------------------------- MODULE RedoDb -------------------------------
(***************************************************************************)
(* What redo-rs relies on from SQLite (WAL journal, one writer, snapshot   *)
(* readers) and how its commands use it (state.rs:86-215, 249-267).        *)
(*                                                                         *)
(* Each command is a little program of database steps.  The start-up of    *)
(* every command (ProcessState::init) comes in two variants selected by    *)
(* the constant Mode:                                                      *)
(*   "pinned"  exists-check; if present: BEGIN DEFERRED, read the schema,  *)
(*             insert a run id, COMMIT; if absent: unlink, open, BEGIN     *)
(*             DEFERRED, create the tables, insert a run id, COMMIT        *)
(*   "fixed"   open, BEGIN IMMEDIATE, look for the tables under the write  *)
(*             lock, create them if absent, insert a run id, COMMIT        *)
(* followed by the command's working transactions, all BEGIN IMMEDIATE, or *)
(* one deferred read-only transaction for the queries.                     *)
(*                                                                         *)
(* SQLite rules modelled: BEGIN IMMEDIATE waits for the write lock (busy   *)
(* timeout 60 s: modelled as blocking); a deferred transaction takes its   *)
(* read snapshot at its first read; its first write must upgrade: that     *)
(* fails at once (SQLITE_BUSY, no waiting) if another connection holds the *)
(* write lock, and (SQLITE_BUSY_SNAPSHOT) if someone committed since the   *)
(* snapshot was taken.                                                     *)
(***************************************************************************)
EXTENDS Naturals, Integers, Sequences, FiniteSets, TLC

CONSTANTS
    Procs,     \* the concurrent commands
    Kind,      \* [Procs -> "build" | "query"]
    Mode,      \* "pinned" | "fixed"
    Exists0,   \* TRUE: the state directory already holds a database
    NWork,     \* working transactions per build command
    RetryWal   \* TRUE: connect() retries `pragma journal_mode = WAL` while the database is busy (repaired)

VARIABLES
    file,      \* "absent" | "empty" (file without tables) | "ready"
    inode,     \* generation of the database file (unlink + create makes a new one)
    wal,       \* TRUE once some connection has switched the file to WAL journal mode
    ver,       \* number of commits to the current file
    wlock,     \* holder of the write lock, or "none"
    runids,    \* run ids handed out
    log,       \* committed writes: set of <<proc, n>>
    ps         \* [Procs -> [pc, saw, ino, snap, mode, k, out]]

vars == <<file, inode, wal, ver, wlock, runids, log, ps>>

Init ==
    /\ file = IF Exists0 THEN "ready" ELSE "absent"
    /\ inode = 1 /\ ver = 0 /\ wlock = "none" /\ runids = {} /\ log = {}
    /\ wal = Exists0
    /\ ps = [p \in Procs |-> [pc |-> "start", saw |-> FALSE, ino |-> 0, snap |-> -1, mode |-> "", k |-> 0, out |-> ""]]

Set(p, r) == ps' = [ps EXCEPT ![p] = r]
Fail(p, why) == Set(p, [ps[p] EXCEPT !.pc = "done", !.out = why, !.mode = ""])
MaxId == IF runids = {} THEN 0 ELSE CHOOSE m \in runids : \A x \in runids : x <= m

\* ---------------------------------------------------------------- pinned start-up
PExists(p) ==
    /\ Mode = "pinned" /\ ps[p].pc = "start"
    /\ Set(p, [ps[p] EXCEPT !.pc = IF file # "absent" THEN "p_open" ELSE "p_unlink", !.saw = (file # "absent")])
    /\ UNCHANGED <<file, inode, wal, ver, wlock, runids, log>>

\* the database did not exist: unlink it (!), open (creates an empty file)
PUnlink(p) ==
    /\ ps[p].pc = "p_unlink"
    /\ IF file # "absent"
       THEN \* somebody created it meanwhile: it is removed; whoever had it open keeps writing to a dead file
            /\ inode' = inode + 1 /\ file' = "empty" /\ ver' = 0 /\ wlock' = "none" /\ wal' = TRUE
       ELSE /\ file' = "empty" /\ wal' = TRUE /\ UNCHANGED <<inode, ver, wlock>>
    /\ Set(p, [ps[p] EXCEPT !.pc = "p_create", !.ino = inode', !.mode = "def"])
    /\ UNCHANGED <<runids, log>>

\* create the tables: the first write of a deferred transaction
PCreate(p) ==
    /\ ps[p].pc = "p_create"
    /\ IF ps[p].ino # inode THEN Fail(p, "lost database") /\ UNCHANGED <<file, wlock>>
       ELSE IF wlock \notin {"none", p} THEN Fail(p, "busy") /\ UNCHANGED <<file, wlock>>
       ELSE IF file = "ready" THEN Fail(p, "table exists") /\ UNCHANGED <<file, wlock>>
       ELSE /\ wlock' = p /\ file' = "ready"        \* visible to others only at commit; approximated
            /\ Set(p, [ps[p] EXCEPT !.pc = "runid"])
    /\ UNCHANGED <<inode, wal, ver, runids, log>>

POpen(p) ==
    /\ ps[p].pc = "p_open"
    /\ Set(p, [ps[p] EXCEPT !.pc = "p_schema", !.ino = inode, !.mode = "def"])
    /\ UNCHANGED <<file, inode, wal, ver, wlock, runids, log>>

\* read the schema version: first read of the deferred transaction takes the snapshot
PSchema(p) ==
    /\ ps[p].pc = "p_schema"
    /\ IF ps[p].ino # inode THEN Fail(p, "lost database")
       ELSE IF file # "ready" \/ (wlock # "none" /\ ver = 0 /\ ~Exists0) THEN Fail(p, "no such table")
       ELSE Set(p, [ps[p] EXCEPT !.pc = "runid", !.snap = ver])
    /\ UNCHANGED <<file, inode, wal, ver, wlock, runids, log>>

\* ---------------------------------------------------------------- fixed start-up
\* connect(): open (creates the file), `pragma journal_mode = WAL`.  Switching a fresh file to WAL needs it exclusively;
\* while another connection is inside a transaction SQLite answers "database is locked" at once (the busy timeout does
\* not apply to this pragma): the repaired connect() tries again, the pinned one fails
FOpen(p) ==
    /\ Mode = "fixed" /\ ps[p].pc = "start"
    /\ IF wal THEN
          /\ Set(p, [ps[p] EXCEPT !.pc = "f_begin", !.ino = inode])
          /\ UNCHANGED <<file, wal, wlock>>
       ELSE IF wlock = "none" THEN
          \* the switch itself holds the file exclusively for a moment
          /\ file' = IF file = "absent" THEN "empty" ELSE file
          /\ wlock' = p
          /\ Set(p, [ps[p] EXCEPT !.pc = "f_switch", !.ino = inode])
          /\ UNCHANGED wal
       ELSE /\ ~RetryWal
            /\ Fail(p, "could not connect")
            /\ UNCHANGED <<file, wal, wlock>>
    /\ UNCHANGED <<inode, ver, runids, log>>

FSwitched(p) ==
    /\ ps[p].pc = "f_switch"
    /\ wal' = TRUE /\ wlock' = "none"
    /\ Set(p, [ps[p] EXCEPT !.pc = "f_begin"])
    /\ UNCHANGED <<file, inode, ver, runids, log>>

\* BEGIN IMMEDIATE: waits for the write lock; then create the tables if they are not there
FBegin(p) ==
    /\ ps[p].pc = "f_begin" /\ wlock = "none"
    /\ wlock' = p
    /\ file' = "ready"
    /\ Set(p, [ps[p] EXCEPT !.pc = "runid", !.mode = "imm", !.snap = ver])
    /\ UNCHANGED <<inode, wal, ver, runids, log>>

\* ---------------------------------------------------------------- common: new run id, commit
RunId(p) ==
    /\ ps[p].pc = "runid"
    /\ IF ps[p].ino # inode THEN Fail(p, "lost database") /\ UNCHANGED <<wlock, runids>>
       ELSE IF ps[p].mode = "def" /\ wlock \notin {"none", p} THEN Fail(p, "busy") /\ UNCHANGED <<wlock, runids>>
       ELSE IF ps[p].mode = "def" /\ ps[p].snap # -1 /\ ps[p].snap # ver THEN Fail(p, "busy snapshot") /\ UNCHANGED <<wlock, runids>>
       ELSE /\ wlock' = p
            /\ runids' = runids \cup {MaxId + 1}
            /\ Set(p, [ps[p] EXCEPT !.pc = "init_commit"])
    /\ UNCHANGED <<file, inode, wal, ver, log>>

InitCommit(p) ==
    /\ ps[p].pc = "init_commit"
    /\ ver' = ver + 1 /\ wlock' = "none"
    /\ Set(p, [ps[p] EXCEPT !.pc = "work", !.mode = "", !.snap = -1])
    /\ UNCHANGED <<file, inode, wal, runids, log>>

\* ---------------------------------------------------------------- the command itself
\* working transaction of a build: BEGIN IMMEDIATE (waits), writes, COMMIT -- one atomic step once it holds the lock
WorkBegin(p) ==
    /\ ps[p].pc = "work" /\ Kind[p] = "build" /\ ps[p].k < NWork /\ wlock = "none"
    /\ wlock' = p
    /\ Set(p, [ps[p] EXCEPT !.pc = "work_commit"])
    /\ UNCHANGED <<file, inode, wal, ver, runids, log>>

WorkCommit(p) ==
    /\ ps[p].pc = "work_commit"
    /\ IF ps[p].ino # inode THEN Fail(p, "lost database") /\ UNCHANGED <<ver, log>> /\ wlock' = wlock
       ELSE /\ ver' = ver + 1 /\ wlock' = "none"
            /\ log' = log \cup {<<p, ps[p].k + 1>>}
            /\ Set(p, [ps[p] EXCEPT !.pc = "work", !.k = @ + 1])
    /\ UNCHANGED <<file, inode, wal, runids>>

\* a query: one deferred read-only transaction, never commits anything
QueryRun(p) ==
    /\ ps[p].pc = "work" /\ Kind[p] = "query"
    /\ Set(p, [ps[p] EXCEPT !.pc = "done", !.out = "ok"])
    /\ UNCHANGED <<file, inode, wal, ver, wlock, runids, log>>

Finish(p) ==
    /\ ps[p].pc = "work" /\ Kind[p] = "build" /\ ps[p].k = NWork
    /\ Set(p, [ps[p] EXCEPT !.pc = "done", !.out = "ok"])
    /\ UNCHANGED <<file, inode, wal, ver, wlock, runids, log>>

Next == \E p \in Procs :
    \/ PExists(p) \/ PUnlink(p) \/ PCreate(p) \/ POpen(p) \/ PSchema(p)
    \/ FOpen(p) \/ FSwitched(p) \/ FBegin(p) \/ RunId(p) \/ InitCommit(p)
    \/ WorkBegin(p) \/ WorkCommit(p) \/ QueryRun(p) \/ Finish(p)

Spec == Init /\ [][Next]_vars

(***************************************************************************)
(* C16                                                                     *)
(***************************************************************************)
\* no command fails for a reason that is not in the build scripts
NoSpuriousFailure == \A p \in Procs : ps[p].out \in {"", "ok"}

\* every acknowledged write is in the database that exists at the end
AllDone == \A p \in Procs : ps[p].pc = "done"
NoLostState == AllDone => \A p \in Procs : (ps[p].out = "ok" /\ Kind[p] = "build") =>
                              (ps[p].ino = inode /\ \A n \in 1..NWork : <<p, n>> \in log)

\* run ids are handed out once
RunIdsDistinct == Cardinality(runids) = Cardinality({p \in Procs : ps[p].pc \in {"init_commit", "work", "work_commit", "done"}
                                                                  /\ ps[p].out \in {"", "ok"}})
                  \/ \E p \in Procs : ps[p].out \notin {"", "ok"}

\* nobody waits for ever: a blocked BEGIN IMMEDIATE always finds the lock released eventually
NotStuck == AllDone \/ ENABLED Next
=============================================================================
