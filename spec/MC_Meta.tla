------------------------------- MODULE MC_Meta -------------------------------
(* record round trip and the parser on every near-miss line *)
EXTENDS RedoMeta, Json
CONSTANTS MaxText, MaxLine
TextAlphabet == {"@", ":", " ", "a", "0"}
LineAlphabet == {"@", ":", " ", "a", "0", "."}
Str(s) == [i \in 1..Len(s) |-> s[i]]
Kinds == {<<"d","o">>, <<"d","o","n","e">>, <<"u","n","c","h","a","n","g","e","d">>, <<"c","h","e","c","k">>,
          <<"l","o","c","k","e","d">>, <<"w","a","i","t","i","n","g">>, <<"u","n","l","o","c","k","e","d">>,
          <<"r","e","s","u","m","e","d">>}
Pids == {<<"0">>, <<"1">>, <<"2","1","4","7","4","8","3","6","4","7">>}
Stamps == {<<"0",".","0","0","0","0">>, <<"1","7","9","0","6","8","8","9","1","0",".","9","7","7","8">>}
Texts == UNION {[1..n -> TextAlphabet] : n \in 0..MaxText}
Lines == UNION {[1..n -> LineAlphabet] : n \in 0..MaxLine}

VARIABLES mode, x
Init == \/ mode = "record" /\ x \in [kind : Kinds, pid : Pids, ts : Stamps, text : Texts]
        \/ mode = "line" /\ x \in Lines
Next == UNCHANGED <<mode, x>>
Spec == Init /\ [][Next]_<<mode, x>>

\* a record survives formatting and re-parsing unchanged, whatever its text
RoundTripOk == mode = "record" => RoundTrip(x)
\* a done record yields its status and name back when the text is "<rv> <name>"
DoneOk == (mode = "record" /\ x.kind = <<"d","o","n","e">>) =>
             LET t == <<"2","0","6"," ">> \o x.text IN
             LET d == DoneText(t) IN d.ok /\ d.rv = <<"2","0","6">> /\ d.name = x.text
Export == mode = "line" => PrintT("@@" \o ToJson([line |-> Prefix \o x, parse |-> Parse(Prefix \o x)]))
ExportRec == (mode = "record" /\ x.pid = <<"1">> /\ x.kind = <<"d","o">> /\ x.ts = <<"0",".","0","0","0","0">>) =>
                 PrintT("@@" \o ToJson([line |-> Format(x), parse |-> Parse(Format(x))]))
=============================================================================
