----------------------------- MODULE RedoCore -----------------------------
(***************************************************************************)
(* Pure operators transcribed from the redo-rs sources, one per function.  *)
(*                                                                         *)
(*   deps.rs:58-233     private_is_dirty  -> Dirty / DirtyEdges            *)
(*   ifchange.rs:121    should_build      -> ShouldBuild                   *)
(*   state.rs:563-636   set_* / update_stamp -> Set* / UpdateStamp         *)
(*   state.rs:638-667   is_source / is_target -> IsSource / IsTarget       *)
(*   state.rs:388-448   File::from_name   -> FromName                      *)
(*   state.rs:725-775   zap_deps1/2, add_dep -> Zap1 / Zap2 / AddDep       *)
(*   builder.rs:112-276 start_self (decision part) -> StartSelf            *)
(*   builder.rs:486-636 record_new_state  -> RecOutcome / RecordRow        *)
(*                                                                         *)
(* A "world" w is the database as one record:                              *)
(*   w.db   : [Names -> Row]      (default row when the file is unknown)   *)
(*   w.ids  : [Names -> Nat]      (0 = no row; SQLite rowid otherwise)     *)
(*   w.next : Nat                 (next rowid)                             *)
(*   w.edges: set of [t, s, mode, del]   (the Deps table)                  *)
(*   w.memo : set of Names        (redo-ood's in-memory "checked" set)     *)
(* An evaluation environment e carries what is_dirty reads besides the db: *)
(*   e.fs (the file system), e.rid (REDO_RUNID), e.q (TRUE for redo-ood).  *)
(***************************************************************************)
EXTENDS Naturals, Integers, Sequences, FiniteSets, SequencesExt, TLC

CONSTANT KeepCsum      \* TRUE: pinned behaviour, a file that redo takes for the user's (hand-edited target, static source) keeps the
                       \* checksum recorded for the content redo once produced

None    == -1          \* SQL NULL for run ids and stamps
Missing == 0           \* Stamp::MISSING
ALWAYS  == "//ALWAYS"

\* File contents are terms.  n = file name, k = producer ("src", "user", "do",
\* or the name of the .do file that wrote it), v = version, d = contents read.
NoVal == [n |-> "", k |-> "none", v |-> 0, d |-> <<>>]

NewRow == [gen |-> FALSE, ovr |-> FALSE, checked |-> None, changed |-> None,
           failed |-> None, stamp |-> None, csum |-> NoVal]

Max2(a, b) == IF a >= b THEN a ELSE b

DirStamp == -2         \* Stamp::DIR: "directories change too much; detect only existence"

\* read_stamp (state.rs:852): MISSING, the constant DIR for a directory, or an identity that
\* changes with every write (mtime,size,inode,...).  For a symbolic link: the stamp of the link
\* object itself "+" the stamp of what it points to (Stamp::with_link_target), encoded as one number.
BaseStamp(fs, n) == IF ~fs[n].ex THEN Missing
                    ELSE IF fs[n].dir THEN DirStamp ELSE fs[n].ver
LinkStamp(a, b)  == 1000000 + a * 1000 + (b + 2)
CurStamp(fs, n) == IF n = ALWAYS THEN Missing
                   ELSE IF fs[n].ex /\ fs[n].lnk # "" THEN LinkStamp(fs[n].ver, BaseStamp(fs, fs[n].lnk))
                   ELSE BaseStamp(fs, n)

\* Path::exists(), [ -e n ]: follows a symbolic link (a dangling link does not "exist", although lstat finds it)
Exists(fs, n) == n # ALWAYS /\ fs[n].ex /\ (fs[n].lnk = "" \/ fs[fs[n].lnk].ex)

(***************************************************************************)
(* Rows                                                                    *)
(***************************************************************************)
FromName(w, n) ==
    IF w.ids[n] # 0 THEN w
    ELSE [w EXCEPT !.ids[n] = w.next, !.next = w.next + 1, !.db[n] = NewRow]

\* File::from_cols special case for //ALWAYS (state.rs:484-492)
Load(w, e, n) ==
    LET r == w.db[n] IN
    IF n = ALWAYS
    THEN [r EXCEPT !.changed = IF r.changed = None THEN e.rid ELSE Max2(e.rid, r.changed)]
    ELSE r

Save(w, n, r) == [w EXCEPT !.db[n] = r]

SetChanged(r, rid) == [r EXCEPT !.changed = rid, !.failed = None, !.ovr = FALSE]
SetChecked(r, rid) == [r EXCEPT !.checked = rid]
SetGenerated(r)    == [r EXCEPT !.gen = TRUE, !.ovr = FALSE, !.failed = None]

\* update_stamp (state.rs:620); the must_exist error is handled by callers.
UpdateStamp(r, new, rid) ==
    IF r.stamp # new THEN SetChanged([r EXCEPT !.stamp = new], rid) ELSE r

SetFailed(r, new, rid) ==
    LET r1 == UpdateStamp(r, new, rid) IN
    [r1 EXCEPT !.failed = rid, !.gen = (r1.stamp # Missing)]

\* (repaired: the recorded checksum describes what redo produced, not what the user put there: it is forgotten, so that a
\* later regeneration with the old content counts as a change for everything that was built from the user's version)
ForgetCsum(r) == IF KeepCsum THEN r ELSE [r EXCEPT !.csum = NoVal]

SetStatic(r, new, rid) ==
    ForgetCsum([UpdateStamp(r, new, rid) EXCEPT !.failed = None, !.ovr = FALSE, !.gen = FALSE])

SetOverride(r, new, rid) ==
    ForgetCsum([UpdateStamp(r, new, rid) EXCEPT !.failed = None, !.ovr = TRUE])

IsCheckedRow(r, rid) == r.checked # None /\ r.checked # 0 /\ r.checked >= rid
IsChangedRow(r, rid) == r.changed # None /\ r.changed # 0 /\ r.changed >= rid
IsFailedRow(r, rid)  == r.failed  # None /\ r.failed  # 0 /\ r.failed  >= rid

\* Stamp::detect_override compares mtime and size only; every write in the model
\* changes both, so it is plain inequality -- of the link object's own part for a
\* symbolic link ("detect_override() doesn't care about the target of the link").
OwnPart(s) == IF s >= 1000000 THEN 500000 + ((s - 1000000) \div 1000) ELSE s
DetectOverride(old, new) == OwnPart(old) # OwnPart(new)

(***************************************************************************)
(* Edges                                                                   *)
(***************************************************************************)
AddDep(w, t, mode, s) ==
    LET w1 == FromName(w, s) IN
    [w1 EXCEPT !.edges = {x \in @ : ~(x.t = t /\ x.s = s)}
                         \cup {[t |-> t, s |-> s, mode |-> mode, del |-> FALSE]}]

Zap1(w, t) == [w EXCEPT !.edges = {IF x.t = t THEN [x EXCEPT !.del = TRUE] ELSE x : x \in @}]
Zap2(w, t) == [w EXCEPT !.edges = {x \in @ : ~(x.t = t /\ x.del)}]

\* File::deps (state.rs:692): none for overridden / non-generated files; SQLite
\* walks the (target, source) primary key, i.e. ascending source rowid.
DepsOf(w, f, r) ==
    IF r.ovr \/ ~r.gen THEN <<>>
    ELSE SetToSortSeq({x \in w.edges : x.t = f}, LAMBDA a, b : w.ids[a.s] < w.ids[b.s])

(***************************************************************************)
(* is_dirty                                                                *)
(***************************************************************************)
Res(v, need, w) == [v |-> v, need |-> need, w |-> w]

MemoChecked(w, e, f, r) == IF e.q THEN f \in w.memo ELSE IsCheckedRow(r, e.rid)

\* set_checked callback: persistent for builds, in-memory for redo-ood
MarkChecked(w, e, f, r) ==
    IF e.q THEN [w EXCEPT !.memo = @ \cup {f}]
    ELSE Save(w, f, SetChecked(r, e.rid))

RECURSIVE Dirty(_, _, _, _, _)
RECURSIVE DirtyEdges(_, _, _, _, _, _, _)

Dirty(w, e, f, maxc, path) ==
    LET r   == Load(w, e, f)
        cur == CurStamp(e.fs, f)
    IN
    IF f \in path THEN Res("cycle", <<>>, w)
    ELSE IF r.failed # None THEN Res("dirty", <<>>, w)
    ELSE IF r.changed = None THEN Res("dirty", <<>>, w)
    ELSE IF r.changed > maxc THEN Res("dirty", <<>>, w)
    ELSE IF MemoChecked(w, e, f, r) THEN Res("clean", <<>>, w)
    ELSE IF r.stamp = None THEN Res("dirty", <<>>, w)
    ELSE IF r.stamp # cur THEN
        \* deps.rs:119-144; a vanished generated file is converted target -> source
        LET w2 == IF cur = Missing /\ r.gen
                  THEN Save(w, f, [r EXCEPT !.gen = FALSE, !.failed = 0])
                  ELSE w
        IN IF r.csum # NoVal THEN Res("need", <<f>>, w2) ELSE Res("dirty", <<>>, w2)
    ELSE DirtyEdges(w, e, f, r, DepsOf(w, f, r), <<>>, path \cup {f})

DirtyEdges(w, e, f, r, es, acc, path) ==
    IF es = <<>> THEN
        IF acc # <<>> THEN Res("need", acc, w)
        ELSE Res("clean", <<>>, MarkChecked(w, e, f, r))
    ELSE
        LET ed  == Head(es)
            sub == IF ed.mode = "c"
                   THEN Res(IF Exists(e.fs, ed.s) THEN "dirty" ELSE "clean", <<>>, w)
                   ELSE Dirty(w, e, ed.s,
                              Max2(r.changed, IF r.checked = None THEN 0 ELSE r.checked), path)
        IN
        IF sub.v = "cycle" THEN sub
        ELSE IF sub.v = "dirty" THEN
            IF r.csum = NoVal THEN Res("dirty", <<>>, sub.w)
            ELSE Res("need", <<f>>, sub.w)
        ELSE DirtyEdges(sub.w, e, f, r, Tail(es),
                        IF sub.v = "need" THEN acc \o sub.need ELSE acc, path)

IsDirty(w, e, f) == Dirty(w, e, f, e.rid, {})

\* ifchange.rs:121-136.  v = "failed" stands for the ImmediateExit(32) error.
ShouldBuild(w, e, t) ==
    LET w1 == FromName(w, t)
        r  == Load(w1, e, t)
    IN
    IF IsFailedRow(r, e.rid) THEN [v |-> "failed", need |-> <<>>, w |-> w1, gen |-> r.gen]
    ELSE LET d == IsDirty(w1, e, t)
             v == IF d.v = "need" /\ d.need = <<t>> THEN "dirty" ELSE d.v
         IN [v |-> v, need |-> IF v = "need" THEN d.need ELSE <<>>, w |-> d.w,
             gen |-> d.w.db[t].gen]

(***************************************************************************)
(* is_source / is_target (state.rs:638-667)                                *)
(***************************************************************************)
IsSource(w, e, n) ==
    LET r == Load(w, e, n)
        new == CurStamp(e.fs, n)
    IN
    IF n = ALWAYS THEN FALSE
    ELSE IF r.gen /\ (~IsFailedRow(r, e.rid) \/ new # Missing) /\ ~r.ovr /\ r.stamp = new
         THEN FALSE
    ELSE IF (~r.gen \/ r.stamp # new) /\ new = Missing THEN FALSE
    ELSE TRUE

IsTarget(w, e, n) == w.db[n].gen /\ ~IsSource(w, e, n)

(***************************************************************************)
(* start_self, decision part (builder.rs:127-173, 273-276).                *)
(*   sf    : the File struct the BuildJob carries (loaded before            *)
(*           should_build ran -- it can be stale with respect to w)        *)
(*   cands : candidate .do files of t in priority order                    *)
(* Result r.k: "panic" | "static" | "norule" | "run"; r.w new world;       *)
(* r.rv the immediate exit value; r.df the chosen .do; r.sf the struct     *)
(* kept for record_new_state; r.ovr whether the override warning printed.  *)
(***************************************************************************)
RECURSIVE FindDo(_, _, _, _, _)
FindDo(w, fs, t, cands, i) ==
    IF i > Len(cands) THEN [w |-> w, df |-> ""]
    ELSE IF fs[cands[i]].ex THEN [w |-> AddDep(w, t, "m", cands[i]), df |-> cands[i]]
    ELSE FindDo(AddDep(w, t, "c", cands[i]), fs, t, cands, i + 1)

StartSelf(w, e, t, sf, cands, nullStampPanics, overrideStale) ==
    LET new   == CurStamp(e.fs, t)
        warn  == sf.gen /\ new # Missing /\ (sf.ovr \/ sf.stamp = None \/ DetectOverride(sf.stamp, new))
        \* pinned: unwrap() of a NULL stamp (a record that redo-stamp marked generated in a build that was killed before it
        \* was recorded, and a file now exists); repaired: a file beside a generated record without a stamp is not ours
        bad   == nullStampPanics /\ sf.gen /\ new # Missing /\ ~sf.ovr /\ sf.stamp = None
        \* pinned (overrideStale): the record of an overridden file was written only when the override was first noticed; after a
        \* second hand edit its stamp stayed behind for good (the file "changed" in every run: dependents rebuilt by every
        \* redo-ifchange, listed by redo-ood right after a build); repaired: refreshed whenever the override branch is taken
        sf1   == IF warn /\ (~sf.ovr \/ ~overrideStale) THEN SetOverride(sf, new, e.rid) ELSE sf
        w1    == IF warn THEN Save(w, t, sf1) ELSE w
    IN
    IF bad THEN [k |-> "panic", w |-> w, rv |-> 101, df |-> "", sf |-> sf, ovr |-> FALSE]
    ELSE IF Exists(e.fs, t) /\ ~e.fs[t].dir /\ (sf1.ovr \/ ~sf1.gen) THEN      \* (a directory is never a static source)
        LET sf2 == IF ~sf1.ovr THEN SetStatic(sf1, new, e.rid) ELSE sf1 IN
        [k |-> "static", w |-> Save(w1, t, sf2), rv |-> 0, df |-> "", sf |-> sf2, ovr |-> warn]
    ELSE
        LET fd == FindDo(Zap1(w1, t), e.fs, t, cands, 1) IN
        IF fd.df = "" THEN
            \* no rule: an existing file (a generated target whose .do vanished)
            \* becomes a static source, otherwise the target fails
            IF Exists(e.fs, t) THEN
                LET sf2 == SetStatic(sf1, new, e.rid) IN
                [k |-> "static", w |-> Save(fd.w, t, sf2), rv |-> 0, df |-> "", sf |-> sf2, ovr |-> warn]
            ELSE
                LET sf2 == SetFailed(sf1, new, e.rid) IN
                [k |-> "norule", w |-> Save(fd.w, t, sf2), rv |-> 1, df |-> "", sf |-> sf2, ovr |-> warn]
        ELSE
            LET w2 == FromName(fd.w, fd.df)
                dr == SetStatic(Load(w2, e, fd.df), CurStamp(e.fs, fd.df), e.rid)
            IN [k |-> "run", w |-> Save(w2, fd.df, dr), rv |-> 0, df |-> fd.df, sf |-> sf1, ovr |-> warn]

(***************************************************************************)
(* record_new_state (builder.rs:486-636)                                   *)
(*   before : stamp of t when the job was created; now : stamp after the   *)
(*   script ended; std/file : stdout non-empty / $3 exists; rv : script's  *)
(*   status.  RecOutcome gives the status and the file operation;          *)
(*   RecordRow the database part, evaluated after the file operation.      *)
(***************************************************************************)
RecOutcome(before, now, std, file, rv) ==
    LET modified == now # Missing /\ now # DirStamp /\ (before = Missing \/ before # now)   \* !after_t.is_dir()
        rv1 == IF modified THEN 206 ELSE IF file /\ std THEN 207 ELSE rv
    IN [rv |-> rv1,
        op |-> IF rv1 # 0 THEN "none" ELSE IF std \/ file THEN "rename" ELSE "unlink"]

\* sf: struct kept by the job (stale); called with the post-operation fs in e.
RecordRow(w, e, t, sf, rv) ==
    LET new == CurStamp(e.fs, t)
        r0  == [Load(w, e, t) EXCEPT !.gen = TRUE, !.ovr = FALSE]    \* refresh
        ok  == IF IsCheckedRow(r0, e.rid) \/ IsChangedRow(r0, e.rid)
               THEN [r0 EXCEPT !.stamp = new]
               ELSE SetChanged(UpdateStamp([r0 EXCEPT !.csum = NoVal], new, e.rid), e.rid)
        row == IF rv = 0 THEN ok
               \* 209: the failure arose inside the success branch (stdout could not be copied, rename failed): the
               \* refreshed row has been treated like a success before set_failed is applied to it
               ELSE IF rv = 209 THEN SetFailed(ok, new, e.rid)
               ELSE SetFailed(sf, new, e.rid)
    IN Save(Zap2(w, t), t, row)

=============================================================================
