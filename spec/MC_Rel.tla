------------------------------- MODULE MC_Rel -------------------------------
(* every pair of absolute strings up to MaxLen: relative path and re-joining *)
EXTENDS RedoPaths, Json
CONSTANT MaxLen
Alphabet == {"/", ".", "a", "b"}
AbsStrings == UNION {{<<"/">> \o s : s \in [1..n -> Alphabet]} : n \in 0..(MaxLen - 1)}
VARIABLES t, base
Init == t \in AbsStrings /\ base \in AbsStrings
Next == UNCHANGED <<t, base>>
Spec == Init /\ [][Next]_<<t, base>>

\* expressing t relative to base and re-joining yields the original location
RelJoin == Clean(Join(base, Rel(t, base))) = Clean(t)
\* the relative form is itself clean (or empty when t is base)
RelClean == Rel(t, base) = << >> \/ Clean(Rel(t, base)) = Rel(t, base)
Export == PrintT("@@" \o ToJson([t |-> t, base |-> base, rel |-> Rel(t, base)]))
=============================================================================
