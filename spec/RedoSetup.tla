------------------------------ MODULE RedoSetup ------------------------------
(***************************************************************************)
(* Which jobserver a redo process uses (jobserver.rs: parse_makeflags,     *)
(* JobServer::setup): the one its parent passed in MAKEFLAGS, or one of    *)
(* its own; which cheat pipe; and when it refuses to start (exit 200).     *)
(* Strings are sequences of one-character strings.                         *)
(***************************************************************************)
EXTENDS Sequences, Naturals, Integers

\* results of the parsers: [k |-> "none"], [k |-> "err"], [k |-> "fds", a |-> .., b |-> ..]
None == [k |-> "none"]
Err  == [k |-> "err"]
Fds(a, b) == [k |-> "fds", a |-> a, b |-> b]
BadInt == -999999          \* ParseInt: not a number

Find1 == <<" ", "-", "-", "j", "o", "b", "s", "e", "r", "v", "e", "r", "-", "a", "u", "t", "h", "=">>
Find2 == <<" ", "-", "-", "j", "o", "b", "s", "e", "r", "v", "e", "r", "-", "f", "d", "s", "=">>

\* first position at which needle occurs in hay, 0 if nowhere
PosOf(hay, needle) ==
    LET S == {i \in 1..(Len(hay) - Len(needle) + 1) : SubSeq(hay, i, i + Len(needle) - 1) = needle}
    IN IF S = {} THEN 0 ELSE CHOOSE i \in S : \A k \in S : i <= k

FirstOf(l, c) == LET S == {i \in 1..Len(l) : l[i] = c} IN IF S = {} THEN 0 ELSE CHOOSE i \in S : \A k \in S : i <= k

Digit(c) == CASE c = "0" -> 0 [] c = "1" -> 1 [] c = "2" -> 2 [] c = "3" -> 3 [] c = "4" -> 4 [] c = "5" -> 5
              [] c = "6" -> 6 [] c = "7" -> 7 [] c = "8" -> 8 [] c = "9" -> 9 [] OTHER -> -1
RECURSIVE Digits(_, _)
Digits(l, acc) == IF l = << >> THEN acc ELSE IF Digit(Head(l)) < 0 THEN -1 ELSE Digits(Tail(l), acc * 10 + Digit(Head(l)))
\* str::parse::<i32> (within the range used here): an optional sign, then at least one digit, nothing else
ParseInt(l) ==
    IF l = << >> THEN BadInt
    ELSE IF Head(l) \in {"-", "+"} THEN
        (IF Tail(l) = << >> \/ Digits(Tail(l), 0) < 0 THEN BadInt ELSE (IF Head(l) = "-" THEN 0 - Digits(Tail(l), 0) ELSE Digits(Tail(l), 0)))
    ELSE IF Digits(l, 0) < 0 THEN BadInt ELSE Digits(l, 0)

\* parse_makeflags: the first " --jobserver-auth=" wins over any " --jobserver-fds="; the argument ends at the next blank
ParseMakeflags(flags) ==
    LET p  == <<" ">> \o flags \o <<" ">>
        i1 == PosOf(p, Find1)
        i2 == PosOf(p, Find2)
        st == IF i1 # 0 THEN i1 + Len(Find1) ELSE IF i2 # 0 THEN i2 + Len(Find2) ELSE 0
    IN IF st = 0 THEN None
       ELSE LET s   == SubSeq(p, st, Len(p))
                arg == SubSeq(s, 1, FirstOf(s, " ") - 1)
                c   == FirstOf(arg, ",")
            IN IF c = 0 THEN Err
               ELSE LET a == ParseInt(SubSeq(arg, 1, c - 1))
                        b == ParseInt(SubSeq(arg, c + 1, Len(arg)))
                    IN IF a = BadInt \/ b = BadInt THEN Err ELSE Fds(a, b)

\* REDO_CHEATFDS: "a,b" (splitn(2, ','))
ParseCheat(l) ==
    LET c == FirstOf(l, ",") IN
    IF c = 0 THEN Err
    ELSE LET a == ParseInt(SubSeq(l, 1, c - 1))
             b == ParseInt(SubSeq(l, c + 1, Len(l)))
         IN IF a = BadInt \/ b = BadInt THEN Err ELSE Fds(a, b)

\* JobServer::setup(j) with MAKEFLAGS = flags, REDO_CHEATFDS = cheat, the set `open` of open descriptors.
\* Result: rc (0: goes on, 200: refuses, 1: other error), own (a jobserver of its own), size (tokens of that pool),
\* warn (the "-jN forced in sub-redo" warning), cheat ("inherit": the parent's cheat pipe, "new")
Setup(flags, cheat, open, j) ==
    LET mf == ParseMakeflags(flags)
        R(rc, own, size, warn, ch) == [rc |-> rc, own |-> own, size |-> size, warn |-> warn, cheat |-> ch]
    IN
    IF mf = Err THEN R(200, FALSE, 0, FALSE, "none")
    ELSE IF mf # None /\ (mf.a \notin open \/ mf.b \notin open) THEN R(200, FALSE, 0, FALSE, "none")
    ELSE LET inherit == mf # None /\ j = 0
             cheats  == IF j = 0 THEN cheat ELSE << >>
             pc      == IF cheats = << >> THEN None ELSE ParseCheat(cheats)
             ch      == IF pc = None \/ pc = Err THEN "new"
                        ELSE IF pc.a \in open /\ pc.b \in open THEN "inherit" ELSE "new"
         IN IF pc = Err THEN R(1, FALSE, 0, FALSE, "none")
            ELSE R(0, ~inherit, IF inherit THEN 0 ELSE (IF j = 0 THEN 1 ELSE j), mf # None /\ j > 1, ch)

(* Properties *)
\* the parent's jobserver is used only when the user did not ask for one (-j absent) and both descriptors are open
InheritOnlyIfAsked(flags, cheat, open, j) ==
    LET r == Setup(flags, cheat, open, j) IN
    (r.rc = 0 /\ ~r.own) => (j = 0 /\ ParseMakeflags(flags).k = "fds"
                             /\ ParseMakeflags(flags).a \in open /\ ParseMakeflags(flags).b \in open)
\* a jobserver of its own has exactly the tokens asked for (one when nothing was asked)
OwnPoolSize(flags, cheat, open, j) ==
    LET r == Setup(flags, cheat, open, j) IN (r.rc = 0 /\ r.own) => r.size = (IF j = 0 THEN 1 ELSE j)
\* a process that starts a pool because the user gave -jN never shares the cheat pipe of the pool above it
OwnPoolOwnCheat(flags, cheat, open, j) ==
    LET r == Setup(flags, cheat, open, j) IN (r.rc = 0 /\ j >= 1) => r.cheat = "new"
\* descriptors named in MAKEFLAGS that are not open (or not numbers) are refused with the documented status, never used
BrokenRefused(flags, cheat, open, j) ==
    LET mf == ParseMakeflags(flags) IN
    (mf = Err \/ (mf.k = "fds" /\ (mf.a \notin open \/ mf.b \notin open))) => Setup(flags, cheat, open, j).rc = 200
=============================================================================
