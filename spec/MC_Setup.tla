------------------------------ MODULE MC_Setup ------------------------------
(* every MAKEFLAGS made of up to MaxTok tokens x REDO_CHEATFDS x -j: the decision of JobServer::setup, exported *)
EXTENDS RedoSetup, Json, TLC
CONSTANTS MaxTok
Chars(str) == CASE str = "A" -> <<"-", "-", "j", "o", "b", "s", "e", "r", "v", "e", "r", "-", "a", "u", "t", "h", "=">>
                [] str = "F" -> <<"-", "-", "j", "o", "b", "s", "e", "r", "v", "e", "r", "-", "f", "d", "s", "=">>
                [] str = "60" -> <<"6", "0">>
                [] str = "61" -> <<"6", "1">>
                [] str = "77" -> <<"7", "7">>
                [] str = "-1" -> <<"-", "1">>
                [] str = "," -> <<",">>
                [] str = " " -> <<" ">>
                [] str = "x" -> <<"x">>
                [] str = "-j" -> <<"-", "j">>
Tok == {"A", "F", "60", "61", "77", "-1", ",", " ", "x", "-j"}
Flags == UNION {[1..n -> Tok] : n \in 0..MaxTok}
RECURSIVE Flat(_)
Flat(ts) == IF ts = << >> THEN << >> ELSE Chars(Head(ts)) \o Flat(Tail(ts))
Open == {0, 1, 2, 60, 61, 62, 63}
Cheats == {<< >>, <<"6", "2", ",", "6", "3">>, <<"6", "2", ",", "7", "7">>, <<"6", "2">>, <<"x", ",", "6", "3">>}
VARIABLES toks, cheat, j
Init == toks \in Flags /\ cheat \in Cheats /\ j \in {0, 1, 3}
Next == UNCHANGED <<toks, cheat, j>>
Spec == Init /\ [][Next]_<<toks, cheat, j>>
F == Flat(toks)
P1 == InheritOnlyIfAsked(F, cheat, Open, j)
P2 == OwnPoolSize(F, cheat, Open, j)
P3 == OwnPoolOwnCheat(F, cheat, Open, j)
P4 == BrokenRefused(F, cheat, Open, j)
Export == PrintT("@@" \o ToJson([toks |-> toks, cheat |-> cheat, j |-> j, r |-> Setup(F, cheat, Open, j)]))
=============================================================================
