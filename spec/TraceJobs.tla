------------------------------ MODULE TraceJobs ------------------------------
(***************************************************************************)
(* Validation of token event traces of the real redo against the token     *)
(* protocol (C08).  The trace is the ndjson file named by the environment  *)
(* variable TRACE: one record per event of the hooked binaries, of one     *)
(* jobserver domain (one token pipe), in file order; runs are separated by *)
(* "Reset" records.  Every event carries the values of my_tokens / cheats  *)
(* the implementation had after it; the specification recomputes them with *)
(* the RedoTok operators, keeps the byte counts of both pipes, and         *)
(* evaluates the conservation invariant after every single event.          *)
(*                                                                         *)
(* Logging rule that makes file order sound: an event that gives something *)
(* (TokRel, CheatPut, Exit) is written before the system call, an event    *)
(* that takes something (TokGet, CheatEat, Reap) after it.                 *)
(***************************************************************************)
EXTENDS RedoTok, Sequences, FiniteSets, FiniteSetsExt, TLC, Json, IOUtils

Rec == ndJsonDeserialize(IOEnv.TRACE)

VARIABLES
    l,       \* next record
    J,       \* tokens of this domain
    own,     \* TRUE: the top level created the pipe; FALSE: the harness plays make
    pipe, cpipe,
    w,       \* tokens the outside world (the harness as make) holds
    pr,      \* [pid -> [my, ch, par, jobs, pend, ret, top]]
    held,    \* job pids whose token is out (from JobStart to Reap / abandonment)
    lost,    \* job pids abandoned by a process that returned its tokens while they ran
    work,    \* job pids inside a work section
    fin,     \* TRUE once the top-level process of the domain has exited
    unbal,   \* processes that exited without the token they were born with and without compensation
    bad      \* "" or the reason why the last event is not a step of the protocol

vars == <<l, J, own, pipe, cpipe, w, pr, held, lost, work, unbal, fin, bad>>

NewProc(par, top) == [my |-> 1, ch |-> 0, par |-> par, jobs |-> {}, pend |-> FALSE, ret |-> FALSE, top |-> top]

Init ==
    /\ l = 1 /\ J = 0 /\ own = TRUE /\ pipe = 0 /\ cpipe = 0 /\ w = 0
    /\ pr = << >> /\ held = {} /\ lost = {} /\ work = {} /\ unbal = {} /\ fin = FALSE /\ bad = ""

e == Rec[l]
P == pr[e.pid]
Known == e.pid \in DOMAIN pr
Set(p, rec) == pr' = [q \in DOMAIN pr \cup {p} |-> IF q = p THEN rec ELSE pr[q]]
Del(p) == pr' = [q \in DOMAIN pr \ {p} |-> pr[q]]
Same == UNCHANGED <<J, own, pipe, cpipe, pr, held, lost, work>>
Balanced(R) == R.ret \/ (R.my = 1 /\ R.ch = 0) \/ (R.top /\ own)

\* the logged counters must be the ones the protocol computes
Agree(my, ch) == e.my = my /\ e.cheats = ch

Step ==
    CASE e.ev = "Reset" ->
            /\ J' = e.j /\ own' = e.own /\ pipe' = (IF e.own THEN 0 ELSE e.j - 1) /\ cpipe' = 0 /\ w' = 0
            /\ pr' = << >> /\ held' = {} /\ lost' = {} /\ work' = {}
      [] e.ev = "JsSetup" ->
            \* a redo process with a jobserver appears; an own top level materialises its J tokens
            /\ ~Known
            /\ Set(e.pid, [NewProc(e.par, e.top) EXCEPT !.my = IF e.own THEN J ELSE 1])
            /\ e.own => (e.top /\ own /\ e.j = J)
            /\ UNCHANGED <<J, own, pipe, cpipe, held, lost, work>>
      [] e.ev = "JobStart" ->
            /\ Known /\ P.my = 1 /\ Agree(0, P.ch)
            /\ Set(e.pid, [P EXCEPT !.my = 0, !.jobs = @ \cup {e.child}])
            /\ held' = held \cup {e.child}
            /\ UNCHANGED <<J, own, pipe, cpipe, lost, work>>
      [] e.ev = "TokGet" ->
            /\ Known /\ pipe >= 1 /\ P.my = 0 /\ Agree(1, P.ch)
            /\ pipe' = pipe - 1
            /\ Set(e.pid, [P EXCEPT !.my = 1])
            /\ UNCHANGED <<J, own, cpipe, held, lost, work>>
      [] e.ev = "CheatEat" ->
            /\ Known /\ cpipe >= 1 /\ ~P.pend /\ Agree(P.my, P.ch)
            /\ cpipe' = cpipe - 1
            /\ Set(e.pid, [P EXCEPT !.pend = TRUE])
            /\ UNCHANGED <<J, own, pipe, held, lost, work>>
      [] e.ev = "TokCreate" ->
            LET c == CreateTok(P.my, P.ch, e.n) IN
            /\ Known /\ ~P.pend /\ e.n = 1 /\ Agree(c.my, c.ch)
            /\ Set(e.pid, [P EXCEPT !.my = c.my, !.ch = c.ch, !.pend = TRUE])
            /\ UNCHANGED <<J, own, pipe, cpipe, held, lost, work>>
      [] e.ev = "TokRel" ->
            LET r == RelTok(P.my, P.ch, e.n) IN
            /\ Known /\ P.my >= e.n /\ Agree(r.my, r.ch) /\ e.shared = r.shared
            /\ pipe' = pipe + r.shared
            /\ Set(e.pid, [P EXCEPT !.my = r.my, !.ch = r.ch])
            /\ UNCHANGED <<J, own, cpipe, held, lost, work>>
      [] e.ev = "Reap" ->
            /\ Known /\ P.pend /\ e.child \in P.jobs /\ Agree(P.my, P.ch)
            /\ Set(e.pid, [P EXCEPT !.pend = FALSE, !.jobs = @ \ {e.child}])
            /\ held' = held \ {e.child}
            /\ work' = work \ {e.child}
            /\ UNCHANGED <<J, own, pipe, cpipe, lost>>
      [] e.ev = "Cheat" ->
            /\ Known /\ P.my = 0 /\ e.n = 1 /\ Agree(1, P.ch + 1)
            /\ Set(e.pid, [P EXCEPT !.my = 1, !.ch = @ + 1])
            /\ UNCHANGED <<J, own, pipe, cpipe, held, lost, work>>
      [] e.ev = "ForceReturn" ->
            \* tokens are re-created for jobs that are still running: they are abandoned
            LET c == CreateTok(P.my, P.ch, e.left) IN
            /\ Known /\ e.left = Cardinality(P.jobs) /\ Agree(c.my, c.ch)
            /\ Set(e.pid, [P EXCEPT !.my = c.my, !.ch = c.ch, !.jobs = {}])
            /\ held' = held \ P.jobs
            /\ lost' = lost \cup P.jobs
            /\ UNCHANGED <<J, own, pipe, cpipe, work>>
      [] e.ev = "CheatPut" ->
            \* compensation byte for the token this process exits without
            /\ Known /\ P.ch >= 1 /\ e.n = P.ch /\ Agree(P.my - P.ch, P.ch)
            /\ cpipe' = cpipe + P.ch
            /\ Set(e.pid, [P EXCEPT !.my = @ - P.ch, !.ch = 0, !.ret = TRUE])
            /\ UNCHANGED <<J, own, pipe, held, lost, work>>
      [] e.ev = "SelfCheck" ->
            \* the top level drained both pipes: what it found is what the protocol says is there
            /\ Known /\ P.top /\ own /\ e.tokens = pipe /\ e.cheatbytes = cpipe /\ e.expect = J
            /\ pipe' = e.tokens /\ cpipe' = 0
            /\ UNCHANGED <<J, own, pr, held, lost, work>>
      [] e.ev = "Exit" ->
            /\ Known
            /\ Del(e.pid)
            /\ unbal' = IF Balanced(P) THEN unbal ELSE unbal \cup {e.pid}
            /\ UNCHANGED <<J, own, pipe, cpipe, held, lost, work>>
      [] e.ev = "LockWait" ->
            \* builder.rs:836-858: the blocking wait for another builder's lock starts only when no child is running
            \* any more and the own token has been given up (else two waiting processes can starve each other)
            /\ Known /\ P.my = 0 /\ P.jobs = {} /\ ~P.pend
            /\ Same
      [] e.ev = "WorkBegin" ->
            /\ work' = work \cup {e.pid} /\ UNCHANGED <<J, own, pipe, cpipe, pr, held, lost>>
      [] e.ev = "WorkEnd" ->
            /\ work' = work \ {e.pid} /\ UNCHANGED <<J, own, pipe, cpipe, pr, held, lost>>
      [] e.ev = "WorldTake" ->
            /\ ~own /\ pipe >= e.n /\ pipe' = pipe - e.n /\ w' = w + e.n
            /\ UNCHANGED <<J, own, cpipe, pr, held, lost, work>>
      [] e.ev = "WorldPut" ->
            /\ ~own /\ w >= e.n /\ pipe' = pipe + e.n /\ w' = w - e.n
            /\ UNCHANGED <<J, own, cpipe, pr, held, lost, work>>
      [] e.ev = "WorldCount" ->
            \* the harness (as make) counted the bytes left in the pipes
            /\ e.tokens = pipe /\ e.cheatbytes = cpipe /\ Same
      [] OTHER -> FALSE

Next ==
    /\ l <= Len(Rec) /\ bad = ""
    /\ l' = l + 1
    /\ Step
    /\ IF e.ev \in {"Reset", "WorldTake", "WorldPut"} THEN TRUE ELSE UNCHANGED w
    /\ IF e.ev = "Reset" THEN unbal' = {} /\ fin' = FALSE
       ELSE IF e.ev = "Exit" THEN fin' = (fin \/ P.top)
       ELSE UNCHANGED <<unbal, fin>>
    /\ UNCHANGED bad

\* an event the protocol does not allow: recorded, so that TLC shows where
Reject ==
    /\ l <= Len(Rec) /\ bad = "" /\ ~ENABLED Next
    /\ bad' = "rejected"
    /\ UNCHANGED <<l, J, own, pipe, cpipe, w, pr, held, lost, work, unbal, fin>>

Spec == Init /\ [][Next \/ Reject]_vars

(***************************************************************************)
(* C08 on the observed execution                                           *)
(***************************************************************************)
Contrib(p) == IF pr[p].ret THEN 0 ELSE pr[p].my - pr[p].ch - (IF pr[p].par # 0 \/ ~own THEN 1 ELSE 0)

\* the J-1 tokens of an own top level exist from its JsSetup on
Started == \E p \in DOMAIN pr : pr[p].top

Conservation ==
    (J > 0 /\ Started) =>
        \* (a process between TokCreate/CheatEat and Reap has already replaced the token of the child it reaps)
        pipe - cpipe + w + Cardinality(held) - Cardinality({p \in DOMAIN pr : pr[p].pend})
            + MapThenSumSet(Contrib, DOMAIN pr) + (IF own THEN 0 ELSE 1) = J

\* the top level itself is gone: everything is back (inherited: in the pipe)
Quiescent == (fin /\ ~own /\ DOMAIN pr = {} /\ held = {}) => pipe + w - cpipe = J - 1

NoAbandon == lost = {}

MaxWork == Cardinality(work) <= J + 1

Accepted == bad = ""

\* a process leaves holding exactly the token it was born with, or after compensating
ExitBalanced == unbal = {}

Done == l = Len(Rec) + 1

View == <<l, bad>>
Alias == [l |-> l, bad |-> bad, J |-> J, pipe |-> pipe, cpipe |-> cpipe, w |-> w, held |-> held, lost |-> lost,
          work |-> work, unbal |-> unbal, fin |-> fin, pr |-> pr, ev |-> IF l > 1 /\ l <= Len(Rec) + 1 THEN Rec[l-1] ELSE << >>,
          next |-> IF l <= Len(Rec) THEN Rec[l] ELSE << >>]
=============================================================================
