"""C10 at system-call granularity: SIGKILL immediately before the N-th state-changing system call.

The gate-driven kills of syscheck/harness land at the specification's own crash points (commit, rename,
select).  This driver closes the gap between those and "at any instant": `strace -e inject=...:signal=SIGKILL:
when=N` kills a process immediately before its N-th call of the set below (file creation, rename, unlink, every
write - including those to the SQLite WAL, the token pipe and the log), for every N a dry run shows.

  mode top  : only the top-level redo is traced and killed; its scripts and sub-redos go on as orphans
  mode tree : as top, and the rest of the session is killed as soon as the top-level has died
  mode all  : every process of the tree (redo, sh, cat, ...) is killed before its own N-th call

The oracle is the specification's: RedoSys (with CrashTree / CrashOne enabled in every state) satisfies
RecoversOk and Fresh, i.e. after any kill the next redo-ifchange exits 0 and every file equals Ideal, and so does
every later edit + rebuild.  Ideal is what TLC exports for the same user-level history without the kill, so the
expected bytes, rows and edges come out of TLC, not out of this file.
"""
import json
import os
import re
import shutil
import subprocess
import time
from concurrent.futures import ThreadPoolExecutor

import common
import harness
import histories
import programs

SYSCALLS = ('rename,renameat,renameat2,unlink,unlinkat,mkdir,mkdirat,openat,write,pwrite64,ftruncate,'
            'link,linkat,symlink,symlinkat')

# categories compared after the recovery and after the later rebuild (run ids differ by the extra runs)
CATS = {'file', 'tmp', 'row.gen', 'row.ovr', 'row.csum', 'row.stamp', 'edge'}


def sweep_programs():
    fam = []
    for p in programs.crash_family():
        p = dict(p)
        p['max_crash'] = 0
        p['name'] = p['name'].replace('crash_', 'ksweep_')
        fam.append(p)
    d = dict(programs.diamond())
    d.update(name='ksweep_diamond', cmds=[('ifchange', ['top'], False)], user=['s'], rm=[], doedits=[], max_crash=0)
    fam.append(programs.complete(d))
    return fam


def variants(prog):
    c = prog['cmds'][0]
    cmd = ('cmd', c[0], tuple(c[1]), False, 1)
    if not prog['user']:
        # nothing to edit: kill the first build, recover, build once more
        return {'first': {'spec': (cmd, cmd), 'kill_at': 0}}
    src = prog['user'][0]
    return {
        # the killed command is the first one ever run in the project (creation of .redo included)
        'first': {'spec': (cmd, ('write', src, 3), cmd), 'kill_at': 0},
        # the killed command is a rebuild after an edit
        'rebuild': {'spec': (cmd, ('write', src, 3), cmd, ('write', src, 5), cmd), 'kill_at': 2},
    }


def expectations(prog, d):
    """TLC: Fresh etc. on the uncrashed histories; returns {variant: history (list of steps with snapshots)}"""
    res, hs = histories.gen_histories(prog, d, max_hist=5 if prog['user'] else 3, max_cmds=3, invariants=['Fresh', 'NoTmpLeft'],
                                      workers=4, timeout=900)
    if res.error or res.violated:
        raise common.ToolError('killsweep: TLC on %s: %s' % (prog['name'], res.error or res.violated))
    # histories shorter than MaxHist are not exported by Export (maximal only): take prefixes of the long ones
    out = {}
    for vn, v in variants(prog).items():
        want = v['spec']
        for h in hs:
            inp = harness.history_input(h)
            if inp[:len(want)] == want:
                out[vn] = h[:len(want)]
                break
        if vn not in out:
            raise common.ToolError('killsweep: no exported history of %s starts with %s' % (prog['name'], want))
    return out, res


def argv_of(step):
    return ['redo-ifchange' if step['kind'] == 'ifchange' else 'redo'] + list(step['targs'])


def run_traced(pj, argv, mode, n, logf, timeout=60):
    """run argv under strace; n = None: dry run (count only)"""
    st = ['strace', '-o', logf, '-e', 'trace=' + SYSCALLS, '-e', 'signal=none']
    if mode == 'all':
        st.insert(1, '-f')
    if n is not None:
        st += ['-e', 'inject=%s:signal=SIGKILL:when=%d' % (SYSCALLS, n)]
    pj.cmdno += 1
    env = pj.env({'REDO_LOG': '0'})
    p = subprocess.Popen(st + argv, cwd=pj.dir, env=env, stdin=subprocess.DEVNULL, stdout=subprocess.PIPE,
                         stderr=subprocess.PIPE, start_new_session=True)
    to = False
    try:
        so, se = p.communicate(timeout=timeout)
    except subprocess.TimeoutExpired:
        to = True
        try:
            os.killpg(p.pid, 9)
        except ProcessLookupError:
            pass
        so, se = p.communicate()
    if mode == 'tree':
        try:
            os.killpg(p.pid, 9)
        except ProcessLookupError:
            pass
    pj.wait_quiet(p.pid)
    return p.returncode, se.decode('utf-8', 'replace'), to


def count_calls(logf, mode):
    """per process number of traced calls in a strace -o log; returns the maximum"""
    per = {}
    for line in open(logf, errors='replace'):
        if mode == 'all':
            m = re.match(r'(\d+)\s+(\w+)\(', line)
            if m:
                per[m.group(1)] = per.get(m.group(1), 0) + 1
            else:
                m = re.match(r'(\d+)\s+<\.\.\. \w+ resumed>', line)
        else:
            if re.match(r'\w+\(', line):
                per['top'] = per.get('top', 0) + 1
    return max(per.values()) if per else 0


def killed_count(logf):
    try:
        return sum(1 for line in open(logf, errors='replace') if '+++ killed by SIGKILL +++' in line or line.rstrip().endswith('= ?'))
    except FileNotFoundError:
        return 0


def classify(trace_path, pj, snap):
    """is the post-kill state inside one of the two known windows?  (hook events of the killed run)
    rename window: a RecFs{rename} of target t was logged and the row of t does not carry the stamp of the file;
    stamp window: a redo-stamp process committed for its target and the build of that target was never recorded"""
    evs = []
    try:
        for line in open(trace_path):
            try:
                evs.append(json.loads(line))
            except ValueError:
                pass
    except FileNotFoundError:
        return None
    wins = []
    comm = {}
    tgt = {}
    for e in evs:
        if e['ev'] == 'ProcStart':
            comm[e['pid']] = os.path.basename(e['argv'][0]) if e.get('argv') else ''
            tgt[e['pid']] = e.get('target', '')
    recorded = set()
    for e in evs:
        if e['ev'] == 'RecDone':
            recorded.add(e.get('t'))
    for e in evs:
        if e['ev'] == 'RecFs' and e.get('op') == 'rename':
            t = e.get('t')
            row = snap['rows'].get(t)
            if row is None or row['stamp'] != harness.stamp_of(pj.path(t)):
                wins.append('rename')
    for pid, c in comm.items():
        if c == 'redo-stamp' and any(e['pid'] == pid and e['ev'] == 'Commit' and e.get('wrote', 0) > 0 for e in evs):
            if tgt.get(pid) not in recorded:
                wins.append('stamp')
    return wins[0] if wins else None


def one_run(prog, exp, vn, mode, n, root, bindir):
    """returns dict(ok, killed, diffs, window, dir)"""
    v = variants(prog)[vn]
    hist = exp[vn]
    pj = harness.Project(prog, root, bindir, log_mode='0')
    k = v['kill_at']
    # prefix: the steps before the command that is killed
    for st in hist[:k]:
        if st['a'] == 'write':
            pj.write_user(st['n'], st['v'])
        elif st['a'] == 'cmd':
            rc, so, se, started, to = pj.run(argv_of(st), timeout=60)
            if rc != st['rc']:
                return {'ok': False, 'killed': 0, 'diffs': ['prefix command exit status %s, spec says %s' % (rc, st['rc'])], 'dir': root}
    trace = os.path.join(root, 'kill_trace.ndjson')
    pj.trace = trace
    logf = os.path.join(root, 'strace.log')
    rc, se, to = run_traced(pj, argv_of(hist[k]), mode, n, logf)
    pj.trace = None
    nk = killed_count(logf) + (1 if rc is not None and rc < 0 else 0)
    report = {'variant': vn, 'mode': mode, 'n': n, 'killed': nk, 'kill_rc': rc, 'dir': root}
    if to:
        report.update(ok=False, diffs=['the command being killed did not terminate'])
        return report
    try:
        snap0 = pj.snapshot()
    except Exception as ex:      # a database that cannot be read yet (killed while it was created)
        snap0 = {'files': {}, 'rows': {}, 'edges': set(), 'tmp': set(), 'error': repr(ex)}
    window = classify(trace, pj, snap0) if nk else None
    diffs = []
    # recovery: the same command again, nothing cleaned up by hand
    rc, so, se, started, to = pj.run(argv_of(hist[k]), timeout=60)
    if to:
        diffs.append('recovery: command did not terminate within 60 s')
    if rc != 0:
        diffs.append('recovery: exit status %s: %s' % (rc, se[-400:]))
    if 'panicked' in se:
        diffs.append('recovery: ' + se[se.find('panicked'):][:300])
    try:
        snap = pj.snapshot()
        diffs += ['recovery: ' + txt for (cat, txt) in pj.compare(snap, hist[k]['snap']) if cat in CATS or cat.split('.')[0] in CATS]
    except Exception as ex:
        diffs.append('recovery: state not readable: %r' % ex)
    # the rest of the history: edit, rebuild
    for st in hist[k + 1:]:
        if st['a'] == 'write':
            pj.write_user(st['n'], st['v'])
        elif st['a'] == 'cmd':
            rc, so, se, started, to = pj.run(argv_of(st), timeout=60)
            if to:
                diffs.append('later rebuild: did not terminate')
            if rc != st['rc']:
                diffs.append('later rebuild: exit status %s, spec says %s: %s' % (rc, st['rc'], se[-300:]))
            try:
                snap = pj.snapshot()
                diffs += ['later rebuild: ' + txt for (cat, txt) in pj.compare(snap, st['snap']) if cat in CATS or cat.split('.')[0] in CATS]
            except Exception as ex:
                diffs.append('later rebuild: state not readable: %r' % ex)
    report.update(ok=not diffs, diffs=diffs, window=window)
    return report


def viewer_kill_run(prog, exp, vn, delay_ms, root, bindir):
    """the log viewer (the redo-log child of a top-level command) is a redo process too: kill it alone while the build runs
    (the builders' writes to it then fail with EPIPE).  As after any other kill, the next run must recover: exit status,
    files, rows and edges as the specification says for the history without the kill, also after a later edit."""
    import threading
    v = variants(prog)[vn]
    hist = exp[vn]
    pj = harness.Project(prog, root, bindir, log_mode=None, jitter=True)
    k = v['kill_at']
    for st in hist[:k]:
        if st['a'] == 'write':
            pj.write_user(st['n'], st['v'])
        elif st['a'] == 'cmd':
            pj.run(argv_of(st), timeout=60)
    killed = []
    st = hist[k]
    pj.cmdno += 1
    p = subprocess.Popen(argv_of(st), cwd=pj.dir, env=pj.env(), stdin=subprocess.DEVNULL, stdout=subprocess.PIPE,
                         stderr=subprocess.PIPE, start_new_session=True)
    t0 = time.time()
    # the viewer is a direct child of the top-level command
    while p.poll() is None and not killed and time.time() - t0 < 30:
        try:
            kids = open('/proc/%d/task/%d/children' % (p.pid, p.pid)).read().split()
        except OSError:
            kids = []
        for c in kids:
            try:
                with open('/proc/%s/cmdline' % c, 'rb') as f:
                    cl = f.read().split(b'\0')
            except OSError:
                continue
            if os.path.basename(cl[0]) == b'redo-log' and (time.time() - t0) * 1000 >= delay_ms:
                try:
                    os.kill(int(c), 9)
                    killed.append(int(c))
                except OSError:
                    pass
                break
        time.sleep(0.0005)
    to = False
    try:
        so, se = p.communicate(timeout=60)
    except subprocess.TimeoutExpired:
        to = True
        try:
            os.killpg(p.pid, 9)
        except ProcessLookupError:
            pass
        so, se = p.communicate()
    pj.wait_quiet(p.pid)
    diffs = []
    if to:
        diffs.append('the command did not terminate after its log viewer was killed')
    # (the command itself may fail: a viewer that dies while it starts up makes redo refuse to go on, exit 99; what the
    # property demands is that the next run recovers)
    rc, so, se, started, to = pj.run(argv_of(st), timeout=60)
    if to:
        diffs.append('recovery: command did not terminate')
    if rc != st['rc']:
        diffs.append('recovery: exit status %s, the specification says %s: %s' % (rc, st['rc'], se[-300:]))
    try:
        snap = pj.snapshot()
        diffs += ['recovery: ' + txt for (cat, txt) in pj.compare(snap, st['snap']) if cat in CATS or cat.split('.')[0] in CATS]
    except Exception as ex:
        diffs.append('recovery: state not readable: %r' % ex)
    for st2 in hist[k + 1:]:
        if st2['a'] == 'write':
            pj.write_user(st2['n'], st2['v'])
        elif st2['a'] == 'cmd':
            rc, so, se, started, to = pj.run(argv_of(st2), timeout=60)
            if rc != st2['rc']:
                diffs.append('later rebuild: exit status %s, spec says %s' % (rc, st2['rc']))
            snap = pj.snapshot()
            diffs += ['later rebuild: ' + txt for (cat, txt) in pj.compare(snap, st2['snap']) if cat in CATS or cat.split('.')[0] in CATS]
    return {'ok': not diffs, 'killed': len(killed), 'diffs': diffs, 'dir': root, 'variant': vn, 'mode': 'viewer', 'n': delay_ms,
            'window': None}


def run_sweep(pid, tier, verdict, bindir):
    """returns coverage dict, tool errors"""
    t0 = time.time()
    root = common.workdir('%s_%s_ksweep' % (pid, tier))
    fam = sweep_programs()
    tool = []
    cov = {'syscall_sweep': {}, 'syscall_kill_runs': 0, 'syscall_kills_delivered': 0, 'syscall_set': SYSCALLS}
    per_combo = None if tier == 'thorough' else 4
    jobs = []
    states = 0
    for prog in fam:
        d = os.path.join(root, prog['name'])
        os.makedirs(d, exist_ok=True)
        try:
            exp, res = expectations(prog, d)
        except common.ToolError as ex:
            tool.append(str(ex))
            continue
        states += res.distinct
        for vn in variants(prog):
            for mode in ('top', 'tree', 'all'):
                # dry run: how many calls does the (longest) process make?
                dd = os.path.join(d, 'dry_%s_%s' % (vn, mode))
                rep = one_run(prog, exp, vn, mode, None, dd, bindir)
                total = count_calls(os.path.join(dd, 'strace.log'), mode)
                if not rep.get('ok'):
                    tool.append('killsweep dry run %s/%s/%s does not behave as the specification says: %s'
                                % (prog['name'], vn, mode, rep.get('diffs')))
                    continue
                shutil.rmtree(dd, ignore_errors=True)
                ns = list(range(1, total + 1))
                if per_combo and len(ns) > per_combo:
                    import random
                    rnd = random.Random(common.seed() * 7919 + hash((prog['name'], vn, mode)) % 1000)
                    ns = sorted(rnd.sample(ns, per_combo))
                cov['syscall_sweep']['%s/%s/%s' % (prog['name'], vn, mode)] = {'calls': total, 'kill_points_run': len(ns)}
                for n in ns:
                    jobs.append((prog, exp, vn, mode, n, os.path.join(d, 'k_%s_%s_%03d' % (vn, mode, n))))
            # the log viewer alone, killed after 0 .. 120 ms
            if prog['name'] in ('ksweep_chain', 'ksweep_diamond', 'ksweep_stamped1plain'):
                for ms in ([1, 6, 15] if tier == "quick" else range(0, 60, 2)):
                    jobs.append((prog, exp, vn, 'viewer', ms, os.path.join(d, 'v_%s_%03d' % (vn, ms))))

    def work(j):
        prog, exp, vn, mode, n, dd = j
        try:
            if mode == 'viewer':
                return prog, viewer_kill_run(prog, exp, vn, n, dd, bindir)
            return prog, one_run(prog, exp, vn, mode, n, dd, bindir)
        except Exception as ex:
            import traceback
            return prog, {'ok': False, 'killed': 0, 'diffs': ['harness exception %r %s' % (ex, traceback.format_exc()[-500:])],
                          'dir': dd, 'variant': vn, 'mode': mode, 'n': n, 'window': None}

    with ThreadPoolExecutor(max_workers=8) as ex:
        for prog, rep in ex.map(work, jobs):
            if rep.get('mode') == 'viewer':
                cov['viewer_kill_runs'] = cov.get('viewer_kill_runs', 0) + 1
                cov['viewer_kills_delivered'] = cov.get('viewer_kills_delivered', 0) + (1 if rep.get('killed') else 0)
            else:
                cov['syscall_kill_runs'] += 1
                cov['syscall_kills_delivered'] += 1 if rep.get('killed') else 0
            if rep['ok']:
                shutil.rmtree(rep['dir'], ignore_errors=True)
                continue
            with open(os.path.join(rep['dir'], 'report.json'), 'w') as f:
                json.dump({'program': prog, 'report': rep}, f, indent=1, default=list)
            key = 'ksweep:%s:%s' % (rep.get('window') or 'other', prog['name'])
            verdict.violation(key, rep['dir'],
                              '%s %s (%s, %s, program %s)%s:\n  %s'
                              % ('log viewer killed after ms' if rep.get('mode') == 'viewer' else 'kill before system call',
                                 rep.get('n'), rep.get('mode'), rep.get('variant'), prog['name'],
                                 ' inside the known %s window' % rep['window'] if rep.get('window') else '',
                                 '\n  '.join(rep['diffs'][:6])))
    cov['syscall_sweep_states'] = states
    cov['syscall_sweep_wall_s'] = round(time.time() - t0, 1)
    return cov, tool
