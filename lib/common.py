"""Shared plumbing for the /verif checks: build, TLC, evidence, verdict lines."""
import fcntl
import fnmatch
import json
import os
import re
import shutil
import subprocess
import sys
import time

VERIF = os.path.dirname(os.path.dirname(os.path.abspath(__file__)))
REPO = os.environ.get('VERIF_REPO', '/repo')
SPEC = os.path.join(VERIF, 'spec')
# (the three overrides exist for bin/try-mutant-wt: a seeded change is checked in a scratch worktree, with its own build
# and scratch directories, without touching /repo or the committed evidence)
WORK = os.environ.get('VERIF_WORK') or os.path.join(VERIF, 'work')
TARGET = os.environ.get('VERIF_TARGET') or os.path.join(VERIF, 'target')
EVID = os.environ.get('VERIF_EVID') or os.path.join(VERIF, 'evidence')
TLA_JAR = '/opt/veriftools/tla/tla2tools.jar'
TLA_CP = TLA_JAR + ':/opt/veriftools/tla/CommunityModules-deps.jar'
REDO_NAMES = ['redo', 'redo-ifchange', 'redo-ifcreate', 'redo-always', 'redo-stamp', 'redo-log',
              'redo-ood', 'redo-targets', 'redo-sources', 'redo-unlocked', 'redo-whichdo']

EXIT_OK, EXIT_VIOLATION, EXIT_TOOL = 0, 1, 2


class ToolError(Exception):
    pass


def seed():
    try:
        return int(os.environ.get('VERIF_SEED', '1'))
    except ValueError:
        return 1


def log(*a):
    print(*a, file=sys.stderr, flush=True)


def workdir(name, clean=True):
    d = os.path.join(WORK, name)
    if clean and os.path.isdir(d):
        shutil.rmtree(d, ignore_errors=True)
    os.makedirs(d, exist_ok=True)
    return d


# --------------------------------------------------------------------------------------
# building the hooked redo from /repo's working tree
# --------------------------------------------------------------------------------------
def build_redo(features='verif-hooks'):
    """cargo build (incremental, offline) of /repo with the hook feature; returns a bin dir
    holding the redo-* symlinks.  Serialised with a file lock so that checks run in
    parallel share one build."""
    os.makedirs(TARGET, exist_ok=True)
    lockf = open(os.path.join(TARGET, '.build.lock'), 'w')
    fcntl.flock(lockf, fcntl.LOCK_EX)
    try:
        tdir = os.path.join(TARGET, 'redo')
        env = dict(os.environ, CARGO_TARGET_DIR=tdir, CARGO_NET_OFFLINE='true')
        cmd = ['cargo', 'build', '--offline', '--bin', 'redo', '--manifest-path',
               os.path.join(REPO, 'Cargo.toml')]
        if features:
            cmd += ['--features', features]
        t0 = time.time()
        r = subprocess.run(cmd, env=env, stdout=subprocess.PIPE, stderr=subprocess.STDOUT, text=True)
        if r.returncode != 0:
            raise ToolError('cargo build failed:\n' + r.stdout[-4000:])
        exe = os.path.join(tdir, 'debug', 'redo')
        bindir = os.path.join(TARGET, 'bin')
        os.makedirs(bindir, exist_ok=True)
        for n in REDO_NAMES:
            p = os.path.join(bindir, n)
            if os.path.islink(p) or os.path.exists(p):
                os.unlink(p)
            os.symlink(exe, p)
        log('[build] redo (%s) in %.1fs' % (features, time.time() - t0))
        return bindir
    finally:
        fcntl.flock(lockf, fcntl.LOCK_UN)
        lockf.close()


# --------------------------------------------------------------------------------------
# TLC
# --------------------------------------------------------------------------------------
class TlcResult:
    def __init__(self):
        self.rc = None
        self.out = ''
        self.generated = 0
        self.distinct = 0
        self.depth = 0
        self.violated = None      # invariant / property name
        self.error = None         # tool level problem
        self.coverage = {}        # action -> (distinct, total)
        self.printed = []         # PrintT payload lines
        self.wall = 0.0
        self.trace = ''           # counterexample text


_cov_re = re.compile(r'^<(\w+) line \d+, col \d+ to line \d+, col \d+ of module (\w+)>: (\d+):(\d+)')


def run_tlc(module, cfg, cwd, workers=8, timeout=900, extra=(), env_extra=None, heap='8g',
            coverage=True, deadlock=False, dfs=False, metaname=None):
    """Run TLC on `module`.tla with `cfg` inside cwd (which must contain or see the specs).
    Returns TlcResult."""
    meta = os.path.join(cwd, 'states_' + (metaname or module))
    shutil.rmtree(meta, ignore_errors=True)
    jopts = ['-XX:+UseParallelGC', '-Xmx' + heap, '-Xss512m']
    if dfs:
        jopts.append('-Dtlc2.tool.queue.IStateQueue=StateDeque')
    cmd = ['java'] + jopts + ['-cp', TLA_CP, '-DTLA-Library=' + SPEC, 'tlc2.TLC',
                              '-workers', str(workers), '-metadir', meta, '-cleanup',
                              '-noGenerateSpecTE', '-config', cfg]
    if coverage:
        cmd += ['-coverage', '1']
    if not deadlock:
        cmd += ['-deadlock']          # -deadlock switches deadlock checking OFF
    cmd += list(extra) + [module]
    env = dict(os.environ)
    if env_extra:
        env.update(env_extra)
    t0 = time.time()
    res = TlcResult()
    try:
        r = subprocess.run(cmd, cwd=cwd, env=env, stdout=subprocess.PIPE, stderr=subprocess.STDOUT,
                           text=True, timeout=timeout)
        res.rc = r.returncode
        res.out = r.stdout
    except subprocess.TimeoutExpired as ex:
        res.rc = -9
        res.out = (ex.stdout or b'').decode('utf-8', 'replace') if isinstance(ex.stdout, bytes) else (ex.stdout or '')
        res.error = 'TLC timeout after %ds' % timeout
    res.wall = time.time() - t0
    shutil.rmtree(meta, ignore_errors=True)
    parse_tlc(res)
    return res


def parse_tlc(res):
    out = res.out
    m = None
    for m in re.finditer(r'(\d+) states generated, (\d+) distinct states found', out):
        pass
    if m:
        res.generated, res.distinct = int(m.group(1)), int(m.group(2))
    m = re.search(r'The depth of the complete state graph search is (\d+)', out)
    if m:
        res.depth = int(m.group(1))
    m = re.search(r'Invariant (\w+) is violated', out)
    if m:
        res.violated = m.group(1)
    m = re.search(r'Action property (\w+) is violated', out) or re.search(r'Temporal properties were violated', out)
    if m and not res.violated:
        res.violated = m.group(1) if m.lastindex else 'temporal'
    if 'Deadlock reached' in out and not res.violated:
        res.violated = 'Deadlock'
    if res.violated:
        i = out.find('The behavior up to this point is')
        if i < 0:
            i = out.find('The following behavior constitutes a counter-example')
        res.trace = out[i:] if i >= 0 else ''
    for line in out.splitlines():
        cm = _cov_re.match(line)
        if cm:
            res.coverage[cm.group(1)] = (int(cm.group(3)), int(cm.group(4)))
        if line.startswith('<<"PRINT"') or line.startswith('"@@'):
            res.printed.append(line)
    if res.error is None and not res.violated:
        if 'Model checking completed. No error has been found' not in out and \
           'Finished computing initial states' not in out and res.rc != 0:
            res.error = 'TLC failed (rc=%s)' % res.rc
        elif res.rc not in (0,) and 'Error:' in out:
            res.error = 'TLC error (rc=%s)' % res.rc
    return res


def tlc_error_text(res, n=3000):
    out = '\n'.join(l for l in res.out.splitlines() if not l.startswith('"@@'))
    i = out.find('Error:')
    return out[i:i + n] if i >= 0 else out[-n:]


# --------------------------------------------------------------------------------------
# evidence and verdicts
# --------------------------------------------------------------------------------------
def write_evidence(pid, tier, level, coverage, wall, violations=0, assumptions=()):
    os.makedirs(EVID, exist_ok=True)
    ev = {
        'property_id': pid,
        'tier': tier,
        'seed': seed(),
        'level': level,
        'coverage': coverage,
        'assumptions': list(assumptions),
        'wall_s': round(wall, 2),
        'violations': violations,
    }
    p = os.path.join(EVID, pid + '.json')
    tmp = p + '.tmp'
    with open(tmp, 'w') as f:
        json.dump(ev, f, indent=1, sort_keys=True)
        f.write('\n')
    os.replace(tmp, p)
    return p


def load_known_findings():
    """known-findings.txt: lines `finding: property=<id> key=<key> <text>` or `fixed: ...`."""
    out = []
    p = os.path.join(VERIF, 'known-findings.txt')
    if not os.path.exists(p):
        return out
    for line in open(p):
        line = line.strip()
        if not line or line.startswith('#'):
            continue
        m = re.match(r'(finding|fixed): property=(\S+)\s+(?:key=(\S+)\s+)?(.*)', line)
        if m:
            out.append({'kind': m.group(1), 'property': m.group(2), 'key': m.group(3), 'text': m.group(4)})
    return out


def known_finding(pid, key):
    for f in load_known_findings():
        if f['kind'] == 'finding' and f['property'] == pid and f['key'] and \
                (f['key'] == key or ('*' in f['key'] and fnmatch.fnmatchcase(key, f['key'].replace('[', '[[]')))):
            return f
    return None


class Verdict:
    """Collects violations / known findings of one check run and produces the exit code."""

    def __init__(self, pid):
        self.pid = pid
        self.violations = []
        self.known = []

    def violation(self, key, replay, text=''):
        kf = known_finding(self.pid, key) if key else None
        if kf:
            if key not in [k for k, _ in self.known]:
                self.known.append((key, kf['text']))
            return False
        self.violations.append((key, replay, text))
        return True

    def finish(self):
        for key, text in self.known:
            print('KNOWN-FINDING: property=%s %s (key=%s)' % (self.pid, text, key), flush=True)
        seen = set()
        for key, replay, text in self.violations:
            if (key, replay) in seen:
                continue
            seen.add((key, replay))
            if text:
                print('  ' + text.replace('\n', '\n  '), flush=True)
            print('VIOLATION property=%s replay=%s' % (self.pid, replay), flush=True)
        return EXIT_VIOLATION if self.violations else EXIT_OK
