"""C13 / C15: RedoPaths (TLC) against the real path functions and binaries.

B3 binding: TLC evaluates the specification's operators on every input up to a bound, checks the laws, and
prints the table; the real functions are called on the same inputs through the `vfun` helper (a tiny Rust
program linked against the redo crate) and through the binaries (redo-whichdo, real builds whose scripts
print cwd/$1/$2/$3), and must agree everywhere.
"""
import json
import os
import sys
import random
import shutil
import subprocess
import time

import common

VFUN_DIR = os.path.join(common.VERIF, 'harness', 'vfun')
VFUN_TARGET = os.path.join(common.TARGET, 'vfun')


def build_vfun():
    global VFUN_DIR
    if common.REPO != '/repo' and not VFUN_DIR.startswith(common.TARGET):
        # a scratch copy of the helper crate that depends on the scratch repository
        dst = os.path.join(common.TARGET, 'vfun-src')
        shutil.rmtree(dst, ignore_errors=True)
        shutil.copytree(VFUN_DIR, dst)
        ct = os.path.join(dst, 'Cargo.toml')
        txt = open(ct).read().replace('path = "/repo"', 'path = "%s"' % common.REPO)
        open(ct, 'w').write(txt)
        VFUN_DIR = dst
    lock = os.path.join(VFUN_DIR, 'Cargo.lock')
    src_lock = os.path.join(common.REPO, 'Cargo.lock')
    if not os.path.exists(lock) or open(lock).read().count('name = ') < 5:
        shutil.copy(src_lock, lock)
    env = dict(os.environ, CARGO_TARGET_DIR=VFUN_TARGET, CARGO_NET_OFFLINE='true')
    t0 = time.time()
    r = subprocess.run(['cargo', 'build', '--offline'], cwd=VFUN_DIR, env=env, stdout=subprocess.PIPE,
                       stderr=subprocess.STDOUT, text=True)
    if r.returncode != 0:
        # the lock file may be stale against /repo's: refresh it once
        shutil.copy(src_lock, lock)
        r = subprocess.run(['cargo', 'build', '--offline'], cwd=VFUN_DIR, env=env, stdout=subprocess.PIPE,
                           stderr=subprocess.STDOUT, text=True)
        if r.returncode != 0:
            raise common.ToolError('vfun build failed:\n' + r.stdout[-3000:])
    common.log('[build] vfun in %.1fs' % (time.time() - t0))
    return os.path.join(VFUN_TARGET, 'debug', 'vfun')


def vfun_batch(exe, requests, cwd='/'):
    """requests: list of tuples of str; returns list of str"""
    data = '\n'.join('\t'.join(r) for r in requests) + '\n'
    r = subprocess.run([exe], input=data.encode(), stdout=subprocess.PIPE, stderr=subprocess.PIPE, cwd=cwd)
    if r.returncode != 0:
        raise common.ToolError('vfun failed: %s' % r.stderr.decode('utf-8', 'replace')[-2000:])
    out = r.stdout.decode('utf-8', 'replace').split('\n')
    if out and out[-1] == '':
        out.pop()
    if len(out) != len(requests):
        raise common.ToolError('vfun: %d answers for %d requests' % (len(out), len(requests)))
    return out


def run_mc(module, consts, invariants, d, timeout=3000, workers=8, heap='10g'):
    shutil.copy(os.path.join(common.SPEC, module + '.tla'), os.path.join(d, module + '.tla'))
    cfg = ''.join('CONSTANT %s = %s\n' % kv for kv in consts.items()) + 'SPECIFICATION Spec\n' + \
        ''.join('INVARIANT %s\n' % i for i in invariants)
    open(os.path.join(d, module + '.cfg'), 'w').write(cfg)
    res = common.run_tlc(module, module + '.cfg', d, workers=workers, timeout=timeout, coverage=False, heap=heap)
    rows = []
    for line in res.printed:
        if line.startswith('"@@'):
            rows.append(json.loads(json.loads(line)[2:]))
    return res, rows


def js(x):
    """character sequence (JSON array, or object with 1-based keys, or empty) -> str"""
    if isinstance(x, dict):
        return ''.join(x[k] for k in sorted(x, key=int))
    return ''.join(x or [])


def jl(x):
    if isinstance(x, dict):
        return [x[k] for k in sorted(x, key=int)]
    return list(x or [])


# ------------------------------------------------------------------------------------------------ C15
def lexical_part(tier, d, verdict, exe, pid='C15'):
    cov = {}
    tool = []
    maxlen = 7 if tier == 'quick' else 9
    res, rows = run_mc('MC_Clean', {'MaxLen': maxlen}, ['Idempotent', 'Preserves', 'Canonical', 'Export'], d)
    cov['clean_strings'] = res.distinct
    if res.error:
        tool.append('MC_Clean: ' + res.error)
    elif res.violated:
        rp = os.path.join(d, 'counterexample_clean.txt')
        open(rp, 'w').write('RedoPaths violates %s\n\n%s' % (res.violated, res.trace))
        verdict.violation('spec:clean:%s' % res.violated, rp, 'RedoPaths.Clean violates %s' % res.violated)
    table = [(js(r['p']), js(r['clean'])) for r in rows]
    got = vfun_batch(exe, [('normpath', p) for p, _ in table])
    bad = [(p, want, have) for (p, want), have in zip(table, got) if want != have]
    cov['normpath_compared'] = len(table)
    if bad:
        rp = os.path.join(d, 'normpath_mismatch.json')
        json.dump([{'input': p, 'spec': w, 'normpath': h} for p, w, h in bad[:200]], open(rp, 'w'), indent=1)
        verdict.violation('fun:normpath', rp, 'normpath(%r) = %r, specification says %r (%d mismatches)' % (bad[0][0], bad[0][2], bad[0][1], len(bad)))
    # random longer strings: the laws on the implementation itself, the reference being the canonical form
    rnd = random.Random(common.seed())
    longer = [''.join(rnd.choice('/./ab.') for _ in range(rnd.randint(maxlen + 1, 40))) for _ in range(3000 if tier == 'quick' else 20000)]
    once = vfun_batch(exe, [('normpath', p) for p in longer])
    twice = vfun_batch(exe, [('normpath', p) for p in once])
    bad = [(p, a, b) for p, a, b in zip(longer, once, twice) if a != b]
    ref = [py_canonical(p) for p in longer]
    bad2 = [(p, a, r) for p, a, r in zip(longer, once, ref) if a != r]
    cov['normpath_random_longer'] = len(longer)
    if bad or bad2:
        rp = os.path.join(d, 'normpath_random.json')
        json.dump({'not_idempotent': bad[:50], 'not_canonical': bad2[:50]}, open(rp, 'w'), indent=1)
        verdict.violation('fun:normpath-random', rp, 'normpath on random strings: %d not idempotent, %d not canonical; e.g. %r'
                          % (len(bad), len(bad2), (bad or bad2)[0]))
    # relative paths
    rl = 4 if tier == 'quick' else 5
    res2, rows2 = run_mc('MC_Rel', {'MaxLen': rl}, ['RelJoin', 'RelClean', 'Export'], d)
    cov['rel_pairs'] = res2.distinct
    if res2.error:
        tool.append('MC_Rel: ' + res2.error)
    elif res2.violated:
        rp = os.path.join(d, 'counterexample_rel.txt')
        open(rp, 'w').write('RedoPaths violates %s\n\n%s' % (res2.violated, res2.trace))
        verdict.violation('spec:rel:%s' % res2.violated, rp, 'RedoPaths.Rel violates %s' % res2.violated)
    for x in ('/a', '/b'):
        if os.path.lexists(x):
            tool.append('%s exists on this machine: relpath would consult it' % x)
    t2 = [(js(r['t']), js(r['base']), js(r['rel'])) for r in rows2]
    got = vfun_batch(exe, [('relpath', t, b) for t, b, _ in t2])
    bad = [(t, b, want, have) for (t, b, want), have in zip(t2, got) if want != have]
    cov['relpath_compared'] = len(t2)
    if bad:
        rp = os.path.join(d, 'relpath_mismatch.json')
        json.dump([{'t': t, 'base': b, 'spec': w, 'relpath': h} for t, b, w, h in bad[:200]], open(rp, 'w'), indent=1)
        verdict.violation('fun:relpath', rp, 'relpath(%r, %r) = %r, specification says %r (%d mismatches)'
                          % (bad[0][0], bad[0][1], bad[0][3], bad[0][2], len(bad)))
    # re-joining on the implementation: normpath(base + "/" + relpath(t, base)) == normpath(t)
    rj = vfun_batch(exe, [('normpath', b + '/' + h) for (t, b, _), h in zip(t2, got)])
    nt = vfun_batch(exe, [('normpath', t) for t, _, _ in t2])
    bad = [(t, b, h, j, n) for (t, b, _), h, j, n in zip(t2, got, rj, nt) if j != n and not h.startswith(('ERR', 'PANIC'))]
    if bad:
        rp = os.path.join(d, 'rejoin_mismatch.json')
        json.dump(bad[:200], open(rp, 'w'), indent=1)
        verdict.violation('fun:rejoin', rp, 're-joining relpath(%r, %r) = %r gives %r, not %r' % bad[0])
    cov['states'] = res.distinct + res2.distinct
    cov['transitions'] = res.generated + res2.generated
    cov['samples'] = [{'input': p, 'clean': c} for p, c in table[1000:1003]] + \
                     [{'t': t, 'base': b, 'rel': r} for t, b, r in t2[500:502]]
    return cov, tool


def py_canonical(p):
    """the canonical spelling of a path's meaning (independent of the code and of the TLA+ text)"""
    rooted = p.startswith('/')
    names, ups = [], 0
    for c in p.split('/'):
        if c in ('', '.'):
            continue
        if c == '..':
            if names:
                names.pop()
            elif not rooted:
                ups += 1
        else:
            names.append(c)
    if rooted:
        return '/' + '/'.join(names)
    parts = ['..'] * ups + names
    return '/'.join(parts) if parts else '.'


# ------------------------------------------------------------------------------------------------ C13
def candidates_part(tier, d, verdict, exe, bindir):
    cov = {}
    tool = []
    consts = {'MaxDepth': 2, 'MaxName': 5} if tier == 'quick' else {'MaxDepth': 3, 'MaxName': 6}
    res, rows = run_mc('MC_Do', consts, ['FirstIsSpecific', 'DirsNeverDeepen', 'LongestExtFirst', 'ArgsConsistent', 'Count', 'Export'], d)
    cov['targets'] = res.distinct
    cov['states'] = res.distinct
    cov['transitions'] = res.generated
    if res.error:
        tool.append('MC_Do: ' + res.error)
        return cov, tool
    if res.violated:
        rp = os.path.join(d, 'counterexample_do.txt')
        open(rp, 'w').write('RedoPaths violates %s\n\n%s' % (res.violated, res.trace))
        verdict.violation('spec:do:%s' % res.violated, rp, 'RedoPaths.Candidates violates %s' % res.violated)
        return cov, tool
    table = []
    for r in rows:
        dirs = [js(x) for x in jl(r['dirs'])]
        name = js(r['name'])
        cands = [{'dodir': [js(x) for x in jl(c['dodir'])], 'dofile': js(c['dofile']), 'arg1': js(c['arg1']), 'arg2': js(c['arg2'])}
                 for c in jl(r['cands'])]
        table.append((dirs, name, cands))
    # (1) candidate enumeration, in process, for every target
    root = '/vroot'
    reqs = [('dofiles', root + ''.join('/' + x for x in dirs) + '/' + name) for dirs, name, _ in table]
    got = vfun_batch(exe, reqs)
    bad = []
    for (dirs, name, cands), have in zip(table, got):
        # the real enumeration goes on above the project root: compare up to the level of `root`, then the rest must
        # be the same pattern one and two levels higher
        want = ['%s|%s' % (root + ''.join('/' + x for x in c['dodir']), c['dofile']) for c in cands]
        havel = have.split('\t')
        if havel[:len(want)] != want:
            bad.append({'target': '/'.join(dirs + [name]), 'spec': want, 'possible_do_files': havel[:len(want) + 2]})
        else:
            tail = havel[len(want):]
            ndef = len([c for c in cands if c['dodir'] == dirs]) - 1
            if len(tail) != ndef or any(not x.startswith('/|default') for x in tail):
                bad.append({'target': '/'.join(dirs + [name]), 'spec_tail': 'the default candidates once more in /', 'possible_do_files': tail})
    # the letter `a` of the specification's alphabet stands for any character that is neither a dot nor a slash: the
    # same comparison with representatives that take several bytes in UTF-8, and a space
    def mapname(x, ch):
        return x.replace('a', ch)

    def mapdo(dofile, name, ch):
        if dofile == name + '.do':
            return mapname(name, ch) + '.do'
        assert dofile.startswith('default') and dofile.endswith('.do'), dofile
        return 'default' + mapname(dofile[len('default'):-3], ch) + '.do'
    nrep = 0
    for ch in ('\u00e9', '\u65e5\u672c', ' '):
        sub = [t for t in table if 'a' in t[1]]
        reqs = [('dofiles', root + ''.join('/' + x for x in dirs) + '/' + mapname(name, ch)) for dirs, name, _ in sub]
        got = vfun_batch(exe, reqs)
        for (dirs, name, cands), have in zip(sub, got):
            want = ['%s|%s' % (root + ''.join('/' + x for x in c['dodir']), mapdo(c['dofile'], name, ch)) for c in cands]
            havel = have.split('\t')
            nrep += 1
            if havel[:len(want)] != want:
                bad.append({'target': '/'.join(dirs + [mapname(name, ch)]), 'spec': want, 'possible_do_files': havel[:len(want) + 2],
                            'note': 'the letter a of the enumerated name replaced by %r' % ch})
    cov['dofiles_compared_with_representative_characters'] = nrep
    cov['dofiles_compared'] = len(table)
    if bad:
        rp = os.path.join(d, 'dofiles_mismatch.json')
        json.dump(bad[:100], open(rp, 'w'), indent=1)
        verdict.violation('fun:dofiles', rp, 'possible_do_files(%s): %s' % (bad[0]['target'], json.dumps(bad[0])[:400]))
    # (2) the binaries: for sampled (target, chosen candidate): redo-whichdo lists exactly the candidates up to the
    # chosen one; a real build runs that script in its directory with the $1 $2 $3 the specification says
    rnd = random.Random(common.seed() + 13)
    picks = []
    for dirs, name, cands in table:
        for k in range(len(cands)):
            picks.append((dirs, name, cands, k))
    rnd.shuffle(picks)
    # make sure every (depth, number of dots, level of the chosen rule) class is present
    picks.sort(key=lambda x: 0)
    n = 300 if tier == 'quick' else 2000
    chosen, seen_cls = [], set()
    for pk in picks:
        dirs, name, cands, k = pk
        cls = (len(dirs), name.count('.'), name.startswith('.'), name.endswith('.'), len(dirs) - len(cands[k]['dodir']), k == 0,
               cands[k]['dofile'] == 'default.do')
        if cls not in seen_cls:
            seen_cls.add(cls)
            chosen.append(pk)
    for pk in picks:
        if len(chosen) >= n:
            break
        if pk not in chosen:
            chosen.append(pk)
    wd = os.path.join(d, 'builds')
    shutil.rmtree(wd, ignore_errors=True)
    os.makedirs(wd)
    bad_w, bad_b = [], []
    from concurrent.futures import ThreadPoolExecutor

    def one(ipk):
        i, (dirs, name, cands, k) = ipk
        return real_do_case(os.path.join(wd, 'c%04d' % i), bindir, dirs, name, cands, k, rnd.random())
    with ThreadPoolExecutor(8) as ex:
        for r in ex.map(one, list(enumerate(chosen))):
            if r.get('whichdo_diff'):
                bad_w.append(r)
            if r.get('build_diff'):
                bad_b.append(r)
    cov['whichdo_and_builds'] = len(chosen)
    cov['classes_covered'] = len(seen_cls)
    if bad_w:
        rp = os.path.join(d, 'whichdo_mismatch.json')
        json.dump(bad_w[:50], open(rp, 'w'), indent=1)
        verdict.violation('bin:whichdo', rp, 'redo-whichdo %s: %s' % (bad_w[0]['target'], bad_w[0]['whichdo_diff']))
    if bad_b:
        rp = os.path.join(d, 'build_args_mismatch.json')
        json.dump(bad_b[:50], open(rp, 'w'), indent=1)
        verdict.violation('bin:args', rp, 'build of %s by %s: %s' % (bad_b[0]['target'], bad_b[0]['chosen'], bad_b[0]['build_diff']))
    cov['samples'] = [{'target': '/'.join(t[0] + [t[1]]), 'candidates': ['/'.join(c['dodir'] + [c['dofile']]) for c in t[2]][:6]} for t in table[40:42]]
    return cov, tool


def clean_env(bindir):
    env = {k: v for k, v in os.environ.items() if not k.startswith('REDO') and k not in ('MAKEFLAGS', 'MFLAGS', 'MAKELEVEL')}
    env['PATH'] = bindir + ':' + env.get('PATH', '/usr/bin:/bin')
    env['REDO_LOG'] = '0'
    return env


DO_ECHO = 'printf "%s|%s|%s|%s\\n" "$PWD" "$1" "$2" "$3" > "$3"\n'


def real_do_case(root, bindir, dirs, name, cands, k, u):
    """project in which exactly candidate k (and, if u > 0.5, some lower-priority ones) exists"""
    shutil.rmtree(root, ignore_errors=True)
    p = os.path.join(root, 'p')
    os.makedirs(os.path.join(p, *dirs))
    os.makedirs(os.path.join(p, '.redo'))         # pins the project base here
    c = cands[k]
    existing = [k]
    if u > 0.5:
        existing += [j for j in range(k + 1, len(cands)) if (j * 7 + k) % 3 == 0]
    for j in existing:
        path = os.path.join(p, *(cands[j]['dodir'] + [cands[j]['dofile']]))
        with open(path, 'w') as f:
            f.write('# candidate %d\n' % j + DO_ECHO)
    tdir = os.path.join(p, *dirs)
    env = clean_env(bindir)
    out = {'target': '/'.join(dirs + [name]), 'chosen': '/'.join(c['dodir'] + [c['dofile']])}
    r = subprocess.run(['redo-whichdo', name], cwd=tdir, env=env, stdout=subprocess.PIPE, stderr=subprocess.PIPE, text=True)
    lines = [x for x in r.stdout.split('\n') if x]
    want = [os.path.relpath(os.path.join(p, *(cands[j]['dodir'] + [cands[j]['dofile']])), tdir) for j in range(k + 1)]
    if lines != want or r.returncode != 0:
        out['whichdo_diff'] = 'exit %s, printed %s, specification says %s' % (r.returncode, lines, want)
    # from the project root, naming the target with its directory
    r = subprocess.run(['redo', os.path.join(*(dirs + [name]))], cwd=p, env=env, stdout=subprocess.PIPE, stderr=subprocess.PIPE, text=True)
    tpath = os.path.join(tdir, name)
    try:
        got = open(tpath).read().strip()
    except OSError:
        got = None
    dodir = os.path.join(p, *c['dodir'])
    want3_dir = os.path.dirname(os.path.normpath(os.path.join(dodir, c['arg1'])))
    if r.returncode != 0 or got is None:
        out['build_diff'] = 'redo exited %s: %s' % (r.returncode, r.stderr[-300:])
    else:
        f = got.split('|')
        probs = []
        if len(f) != 4:
            probs.append('script output %r' % got)
        else:
            if os.path.realpath(f[0]) != os.path.realpath(dodir):
                probs.append('cwd %r, specification says %r' % (f[0], dodir))
            if f[1] != c['arg1']:
                probs.append('$1 = %r, specification says %r' % (f[1], c['arg1']))
            if f[2] != c['arg2']:
                probs.append('$2 = %r, specification says %r' % (f[2], c['arg2']))
            t3 = os.path.normpath(os.path.join(dodir, f[3]))
            if os.path.dirname(t3) != want3_dir or t3 == os.path.normpath(os.path.join(dodir, c['arg1'])):
                probs.append('$3 = %r is not a temporary path beside the target (%r)' % (f[3], want3_dir))
        if probs:
            out['build_diff'] = '; '.join(probs)
    if not out.get('whichdo_diff') and not out.get('build_diff'):
        # history part: a higher-priority candidate appears -> rebuilt by it; the chosen one disappears -> next one
        if k > 0:
            hp = cands[k - 1]
            with open(os.path.join(p, *(hp['dodir'] + [hp['dofile']])), 'w') as f:
                f.write('# candidate %d\n' % (k - 1) + DO_ECHO)
            r = subprocess.run(['redo-ifchange', os.path.join(*(dirs + [name]))], cwd=p, env=env, stdout=subprocess.PIPE,
                               stderr=subprocess.PIPE, text=True)
            got2 = open(tpath).read().strip() if os.path.exists(tpath) else None
            want_dir = os.path.join(p, *hp['dodir'])
            if r.returncode != 0 or got2 is None or got2.split('|')[1:3] != [hp['arg1'], hp['arg2']] or \
                    os.path.realpath(got2.split('|')[0]) != os.path.realpath(want_dir):
                out['build_diff'] = 'after adding the higher-priority %s: redo-ifchange exit %s, target says %r' % (
                    '/'.join(hp['dodir'] + [hp['dofile']]), r.returncode, got2)
            else:
                os.unlink(os.path.join(p, *(hp['dodir'] + [hp['dofile']])))
                r = subprocess.run(['redo-ifchange', os.path.join(*(dirs + [name]))], cwd=p, env=env, stdout=subprocess.PIPE,
                                   stderr=subprocess.PIPE, text=True)
                got3 = open(tpath).read().strip() if os.path.exists(tpath) else None
                if r.returncode != 0 or got3 is None or got3.split('|')[1:3] != [c['arg1'], c['arg2']]:
                    out['build_diff'] = 'after removing the chosen %s again: redo-ifchange exit %s, target says %r' % (
                        '/'.join(hp['dodir'] + [hp['dofile']]), r.returncode, got3)
    if not out.get('whichdo_diff') and not out.get('build_diff'):
        shutil.rmtree(root, ignore_errors=True)
    return out


# ------------------------------------------------------------------------------------------------ C15 aliasing
def spellings(p, cwd_rel):
    """spellings of the file p/sub/t as seen from the directory p/<cwd_rel>"""
    ab = os.path.join(p, 'sub', 't')
    if cwd_rel == '':
        rel = ['sub/t', './sub/t', 'sub/../sub/t', 'sub//t', 'sym/t', 'sub/deep/../t', 'sub/./t', 'far/../t']
    elif cwd_rel == 'sub':
        rel = ['t', './t', '../sub/t', 'deep/../t', '../sym/t', './/t', '../far/../t']
    else:
        rel = ['../t', '../../sub/t', './../t', '../../sym/t', '..//t', '../../far/../t']
    # (`far` is a symbolic link in the project directory to sub/deep: `..` after it leads to sub, not to the project
    # directory - a spelling that lexical cleaning alone gets wrong)
    return rel + [ab, '/' + ab]


def alias_case(root, bindir, cwd_rel, s1, s2, j, cmd):
    shutil.rmtree(root, ignore_errors=True)
    p = os.path.join(root, 'p')
    os.makedirs(os.path.join(p, 'sub', 'deep'))
    os.makedirs(os.path.join(p, '.redo'))
    os.symlink('sub', os.path.join(p, 'sym'))
    os.symlink('sub/deep', os.path.join(p, 'far'))
    with open(os.path.join(p, 'sub', 't.do'), 'w') as f:
        f.write('echo run >> "%s"\nsleep 0.05\necho content\n' % os.path.join(root, 'count'))
    env = clean_env(bindir)
    argv = [cmd] + (['-j%d' % j] if cmd == 'redo' and j > 1 else []) + [s1.replace('@P@', p), s2.replace('@P@', p)]
    try:
        r = subprocess.run(argv, cwd=os.path.join(p, cwd_rel), env=env, stdout=subprocess.PIPE, stderr=subprocess.PIPE,
                           text=True, timeout=60)
        rc, se = r.returncode, r.stderr
    except subprocess.TimeoutExpired:
        rc, se = 'timeout', ''
    runs = 0
    if os.path.exists(os.path.join(root, 'count')):
        runs = len(open(os.path.join(root, 'count')).read().split())
    import sqlite3
    names = []
    dbp = os.path.join(p, '.redo', 'db.sqlite3')
    if os.path.exists(dbp):
        con = sqlite3.connect('file:%s?mode=ro' % dbp, uri=True, timeout=30)
        try:
            names = [r[0] for r in con.execute('select name from Files')]
        finally:
            con.close()
    tnames = [n for n in names if n.endswith('t') and not n.endswith('.do') and n != '//ALWAYS']
    probs = []
    if rc != 0:
        i = se.find('panicked')
        probs.append('exit %s%s' % (rc, (': ' + se[i:i + 160].replace('\n', ' ')) if i >= 0 else (': ' + se[-200:].replace('\n', ' | '))))
    if runs != 1:
        probs.append('the script ran %d times' % runs)
    if tnames != ['sub/t']:
        probs.append('records for the target: %s' % tnames)
    out = {'cwd': cwd_rel or '.', 'argv': argv, 'problems': probs}
    if not probs:
        shutil.rmtree(root, ignore_errors=True)
    return out


def alias_contended_case(root, bindir, cwd_rel, sps, j):
    """another invocation is inside the script of the target when `redo <spellings>` arrives: the waiting command
    must build the target once more (it is forced), not once per spelling"""
    shutil.rmtree(root, ignore_errors=True)
    p = os.path.join(root, 'p')
    os.makedirs(os.path.join(p, 'sub', 'deep'))
    os.makedirs(os.path.join(p, '.redo'))
    os.symlink('sub', os.path.join(p, 'sym'))
    os.symlink('sub/deep', os.path.join(p, 'far'))
    with open(os.path.join(p, 'sub', 't.do'), 'w') as f:
        f.write('echo run >> "%s"\nsleep 0.4\necho content\n' % os.path.join(root, 'count'))
    env = clean_env(bindir)
    bg = subprocess.Popen(['redo', 'sub/t'], cwd=p, env=env, stdin=subprocess.DEVNULL, stdout=subprocess.DEVNULL, stderr=subprocess.DEVNULL)
    # wait until the first script runs
    t0 = time.time()
    while not os.path.exists(os.path.join(root, 'count')) and time.time() - t0 < 10:
        time.sleep(0.01)
    argv = ['redo'] + (['-j%d' % j] if j > 1 else []) + [x.replace('@P@', p) for x in sps]
    try:
        r = subprocess.run(argv, cwd=os.path.join(p, cwd_rel), env=env, stdout=subprocess.PIPE, stderr=subprocess.PIPE, text=True, timeout=60)
        rc, se = r.returncode, r.stderr
    except subprocess.TimeoutExpired:
        rc, se = 'timeout', ''
    bg.wait()
    runs = len(open(os.path.join(root, 'count')).read().split())
    probs = []
    if rc != 0:
        i = se.find('panicked')
        probs.append('exit %s: %s' % (rc, se[i:i + 160].replace('\n', ' ') if i >= 0 else se[-200:].replace('\n', ' | ')))
    if runs != 2:
        probs.append('the script ran %d times (once by the other invocation, once by this forced one expected)' % runs)
    out = {'cwd': cwd_rel or '.', 'argv': argv, 'problems': probs, 'contended': True}
    if not probs:
        shutil.rmtree(root, ignore_errors=True)
    return out


def alias_part(tier, d, verdict, bindir):
    rnd = random.Random(common.seed() + 15)
    cases = []
    for cwd_rel in ('', 'sub', 'sub/deep'):
        sp = spellings('@P@', cwd_rel)
        for s1 in sp:
            for s2 in sp:
                for (cmd, j) in (('redo', 1), ('redo', 2), ('redo-ifchange', 1)):
                    cases.append((cwd_rel, s1, s2, j, cmd))
    rnd.shuffle(cases)
    if tier == 'quick':
        # all pairs with the plain spelling, plus a sample of the rest
        keep = [c for c in cases if c[1] in ('sub/t', 't', '../t') or c[2] in ('sub/t', 't', '../t')]
        rest = [c for c in cases if c not in keep]
        cases = keep + rest[:150]
    wd = os.path.join(d, 'alias')
    shutil.rmtree(wd, ignore_errors=True)
    os.makedirs(wd)
    from concurrent.futures import ThreadPoolExecutor
    bad = []
    with ThreadPoolExecutor(10) as ex:
        for r in ex.map(lambda ic: alias_case(os.path.join(wd, 'a%04d' % ic[0]), bindir, *ic[1]), list(enumerate(cases))):
            if r['problems']:
                bad.append(r)
    # the same with the target locked by another invocation when the command arrives
    cont = []
    for cwd_rel in ('', 'sub', 'sub/deep'):
        sp = spellings('@P@', cwd_rel)
        for k in range(6 if tier == 'quick' else 30):
            sps = rnd.sample(sp, rnd.choice([2, 3]))
            cont.append((cwd_rel, sps, rnd.choice([1, 2])))
    with ThreadPoolExecutor(6) as ex:
        for r in ex.map(lambda ic: alias_contended_case(os.path.join(wd, 'c%04d' % ic[0]), bindir, *ic[1]), list(enumerate(cont))):
            if r['problems']:
                bad.append(r)
    return {'alias_command_lines': len(cases), 'alias_contended_command_lines': len(cont), 'alias_failures': len(bad)}, bad


# ------------------------------------------------------------------------------------------------ how a .do file is run
def exec_part(tier, d, verdict, bindir, pid='C13'):
    """RedoExec (the first-line / interpreter rule) evaluated by TLC on every first line of up to MaxTok tokens; for a sample
    (quick) or all (thorough) of them a real build of a target whose .do file starts with that line must behave exactly as
    the command line the specification predicts behaves when it is executed directly (exit status, output, shell flags)."""
    import random
    import subprocess
    from concurrent.futures import ThreadPoolExecutor
    cov, tool = {}, []
    res, rows = run_mc('MC_Exec', {'MaxTok': 3 if tier == 'quick' else 4}, ['NonEmpty', 'ShOrAbsolute', 'Kept', 'Plain', 'Export'], d,
                       workers=4, heap='4g')
    cov['exec_first_lines'] = res.distinct
    cov['exec_states'] = res.distinct
    if res.error:
        tool.append('MC_Exec: ' + res.error)
        return cov, tool
    if res.violated:
        rp = os.path.join(d, 'counterexample_exec.txt')
        open(rp, 'w').write('RedoExec violates %s\n\n%s' % (res.violated, res.trace))
        verdict.violation('spec:exec:%s' % res.violated, rp, 'RedoExec violates %s' % res.violated)
        return cov, tool
    table = []
    for r in rows:
        line = ''.join(jl(r['toks']))
        prefix = [js(x) for x in jl(r['prefix'])]
        table.append((line, prefix))
    table.sort()
    rnd = random.Random(common.seed())
    # always the shapes around "#!", then a sample
    must = [t for t in table if t[0].strip() in ('#!', '#', '!', '', '#!/bin/sh', '#! /bin/sh', '#!/bin/sh -e', '#!/usr/bin/env sh',
                                                  '#!/usr/bin/env  sh', '#!sh', '#!/bin/sh\t-e', '#!/bin/sh  -x')]
    rest = [t for t in table if t not in must]
    rnd.shuffle(rest)
    chosen = must + (rest if tier == 'thorough' else rest[:150])
    body = 'echo "flags=$- n=$# a1=$1 a2=$2"\necho "to-stderr" >&2\nexit 0\n'
    env = {k: v for k, v in os.environ.items() if not k.startswith('REDO') and k not in ('MAKEFLAGS', 'MFLAGS', 'MAKELEVEL')}
    env['PATH'] = bindir + ':' + env.get('PATH', '/usr/bin:/bin')
    env['REDO_LOG'] = '0'
    root = os.path.join(d, 'exec')
    shutil.rmtree(root, ignore_errors=True)

    def one(iv):
        i, (line, prefix) = iv
        pd = os.path.join(root, 'p%05d' % i)
        os.makedirs(pd)
        with open(os.path.join(pd, 't.do'), 'w') as f:
            f.write(line + '\n' + body)
        # the oracle: the predicted command line, executed directly in a twin directory
        od = os.path.join(root, 'o%05d' % i)
        os.makedirs(od)
        shutil.copy(os.path.join(pd, 't.do'), os.path.join(od, 't.do'))
        try:
            o = subprocess.run(prefix + ['t.do', 't', 't', 't.redo.tmp'], cwd=od, env=env, stdin=subprocess.DEVNULL,
                               stdout=subprocess.PIPE, stderr=subprocess.PIPE, timeout=20)
            orc, oout = o.returncode, o.stdout.decode('utf-8', 'replace')
        except (FileNotFoundError, PermissionError, OSError):
            orc, oout = 127, ''
        r = subprocess.run(['redo', 't'], cwd=pd, env=env, stdin=subprocess.DEVNULL, stdout=subprocess.PIPE,
                           stderr=subprocess.PIPE, timeout=30)
        err = r.stderr.decode('utf-8', 'replace')
        have = None
        if os.path.exists(os.path.join(pd, 't')):
            have = open(os.path.join(pd, 't')).read()
        problems = []
        if 'panicked' in err or r.returncode == 101:
            problems.append('redo aborted: ' + err[-300:])
        if (orc == 0) != (r.returncode == 0):
            problems.append('exit status %s, the predicted command line %r exits %s: %s' % (r.returncode, prefix, orc, err[-200:]))
        # (a first line that is itself a command, e.g. `/usr/bin/env`, may print the environment, which differs: the line
        # the script body prints is what is compared)
        def mark(txt):
            return [ln for ln in (txt or '').split('\n') if ln.startswith('flags=')]
        if orc == 0 and (have is None or mark(have) != mark(oout)):
            problems.append('target is %r, the predicted command line writes %r' % (have, oout))
        if orc != 0 and have is not None:
            problems.append('a failing script left a target: %r' % have)
        if os.path.lexists(os.path.join(pd, 't.redo.tmp')):
            problems.append('t.redo.tmp left behind')
        if not problems:
            shutil.rmtree(pd, ignore_errors=True)
        shutil.rmtree(od, ignore_errors=True)
        return line, prefix, problems, pd

    bad = []
    with ThreadPoolExecutor(max_workers=8) as ex:
        for line, prefix, problems, pd in ex.map(one, enumerate(chosen)):
            if problems:
                bad.append({'first_line': line, 'predicted_prefix': prefix, 'problems': problems, 'dir': pd})
    cov['exec_real_builds'] = len(chosen)
    cov['exec_real_builds_agreeing'] = len(chosen) - len(bad)
    if bad:
        rp = os.path.join(d, 'exec_mismatch.json')
        json.dump(bad, open(rp, 'w'), indent=1)
        verdict.violation('exec:firstline', rp,
                          '%d first lines of a .do file are not run as RedoExec says, e.g. %r: %s'
                          % (len(bad), bad[0]['first_line'], '; '.join(bad[0]['problems'])[:400]))
    return cov, tool


# ------------------------------------------------------------------------------------------------ which jobserver (C08)
def setup_part(tier, d, verdict, bindir, pid='C08'):
    """RedoSetup (parse_makeflags + JobServer::setup) evaluated by TLC on every MAKEFLAGS of up to 4 tokens x REDO_CHEATFDS x
    -j; a sample of the configurations (all those in which the parent's jobserver is taken over) is given to a real `redo`
    with descriptors 60-63 open: exit status, own/inherited jobserver, cheat pipe and warning must be the predicted ones."""
    import random
    import subprocess
    from concurrent.futures import ThreadPoolExecutor
    cov, tool = {}, []
    res, rows = run_mc('MC_Setup', {'MaxTok': 4}, ['P1', 'P2', 'P3', 'P4', 'Export'], d, workers=6, heap='6g')
    cov['setup_configurations'] = res.distinct
    if res.error:
        tool.append('MC_Setup: ' + res.error)
        return cov, tool
    if res.violated:
        rp = os.path.join(d, 'counterexample_setup.txt')
        open(rp, 'w').write('RedoSetup violates %s\n\n%s' % (res.violated, res.trace))
        verdict.violation('spec:setup:%s' % res.violated, rp, 'RedoSetup violates %s' % res.violated)
        return cov, tool
    names = {'A': '--jobserver-auth=', 'F': '--jobserver-fds='}
    table = []
    for r in rows:
        flags = ''.join(names.get(t, t) for t in jl(r['toks']))
        table.append((flags, js(r['cheat']), r['j'], r['r']))
    table.sort(key=lambda x: (x[0], x[1], x[2]))
    rnd = random.Random(common.seed())
    must = [t for t in table if t[3]['rc'] == 0 and (not t[3]['own'] or t[3]['warn'])]
    rest = [t for t in table if t not in must]
    rnd.shuffle(rest)
    by = {}
    for t in rest:      # the same number of each outcome class
        by.setdefault((t[3]['rc'], t[3]['cheat']), []).append(t)
    per = 60 if tier == 'quick' else 600
    chosen = must[:200] + [t for k in sorted(by) for t in by[k][:per]]
    root = os.path.join(d, 'setup')
    shutil.rmtree(root, ignore_errors=True)
    base_env = {k: v for k, v in os.environ.items() if not k.startswith('REDO') and k not in ('MAKEFLAGS', 'MFLAGS', 'MAKELEVEL')}
    base_env['PATH'] = bindir + ':' + base_env.get('PATH', '/usr/bin:/bin')
    base_env['REDO_LOG'] = '0'

    def one(iv):
        i, (flags, cheat, j, want) = iv
        pd = os.path.join(root, 'p%05d' % i)
        os.makedirs(pd)
        with open(os.path.join(pd, 't.do'), 'w') as f:
            f.write('echo built\n')
        trace = os.path.join(pd, 'trace.ndjson')
        env = dict(base_env, MAKEFLAGS=flags, REDO_VERIF_TRACE=trace)
        if cheat:
            env['REDO_CHEATFDS'] = cheat

        # descriptors 60/61: the parent's token pipe (empty), 62/63: the parent's cheat pipe; made by a launcher process of
        # its own (a fresh interpreter has only low descriptors open, so nothing is clobbered), which then becomes redo
        launcher = ('import os,sys\n'
                    'a,b=os.pipe(); c,e=os.pipe()\n'
                    'for s_,d_ in ((a,60),(b,61),(c,62),(e,63)):\n'
                    '    os.dup2(s_,d_); os.set_inheritable(d_,True)\n'
                    'os.execvp(sys.argv[1], sys.argv[1:])\n')
        argv = [sys.executable, '-c', launcher, 'redo'] + (['-j%d' % j] if j else []) + ['t']
        r = subprocess.run(argv, cwd=pd, env=env, stdin=subprocess.DEVNULL, stdout=subprocess.PIPE, stderr=subprocess.PIPE,
                           timeout=60)
        err = r.stderr.decode('utf-8', 'replace')
        ev = None
        if os.path.exists(trace):
            for ln in open(trace):
                if '"JsSetup"' in ln:
                    try:
                        ev = json.loads(ln)
                    except ValueError:
                        pass
                    break
        problems = []
        if 'panicked' in err or r.returncode == 101:
            problems.append('redo aborted: ' + err[-300:])
        elif want['rc'] == 200 and r.returncode != 200:
            problems.append('exit status %s, RedoSetup says 200 (descriptors refused): %s' % (r.returncode, err[-200:]))
        elif want['rc'] == 1 and r.returncode in (0, 200):
            problems.append('exit status %s, RedoSetup says the start fails (invalid REDO_CHEATFDS)' % r.returncode)
        elif want['rc'] == 0:
            if r.returncode != 0:
                problems.append('exit status %s, RedoSetup says the build goes ahead: %s' % (r.returncode, err[-200:]))
            elif ev is None:
                problems.append('no JsSetup event recorded')
            else:
                if bool(ev.get('own')) != want['own']:
                    problems.append('jobserver of its own: %s, RedoSetup says %s' % (ev.get('own'), want['own']))
                if (ev.get('cheatfd') == 62) != (want['cheat'] == 'inherit'):
                    problems.append('cheat pipe descriptor %s, RedoSetup says %s' % (ev.get('cheatfd'), want['cheat']))
                if ('forced in sub-redo' in err) != want['warn']:
                    problems.append('warning about -j in a sub-redo: %s, RedoSetup says %s' % ('forced in sub-redo' in err, want['warn']))
        if not problems:
            shutil.rmtree(pd, ignore_errors=True)
        return (flags, cheat, j, want), problems, pd

    bad = []
    with ThreadPoolExecutor(max_workers=8) as ex:
        for cfg, problems, pd in ex.map(one, enumerate(chosen)):
            if problems:
                bad.append({'MAKEFLAGS': cfg[0], 'REDO_CHEATFDS': cfg[1], 'j': cfg[2], 'predicted': cfg[3], 'problems': problems, 'dir': pd})
    cov['setup_real_runs'] = len(chosen)
    cov['setup_real_runs_agreeing'] = len(chosen) - len(bad)
    cov['setup_inherit_configurations_run'] = len([t for t in chosen if t[3]['rc'] == 0 and not t[3]['own']])
    if bad:
        rp = os.path.join(d, 'setup_mismatch.json')
        json.dump(bad, open(rp, 'w'), indent=1)
        verdict.violation('setup:jobserver', rp,
                          '%d start-up configurations do not behave as RedoSetup says, e.g. MAKEFLAGS=%r REDO_CHEATFDS=%r -j%s: %s'
                          % (len(bad), bad[0]['MAKEFLAGS'], bad[0]['REDO_CHEATFDS'], bad[0]['j'], '; '.join(bad[0]['problems'])[:400]))
    return cov, tool
