"""C18: RedoMeta / RedoLog (TLC) and the real log streams (TraceLog)."""
import json
import os
import random
import re
import shutil
import subprocess
import time
from concurrent.futures import ThreadPoolExecutor

import common
import funcheck
import tracecheck
from tla import s, seq, fn

US = '\x1f'


# ------------------------------------------------------------------------------------------------ records (B3)
def meta_part(tier, d, verdict, exe):
    cov, tool = {}, []
    consts = {'MaxText': 4, 'MaxLine': 5} if tier == 'quick' else {'MaxText': 5, 'MaxLine': 6}
    res, rows = funcheck.run_mc('MC_Meta', consts, ['RoundTripOk', 'DoneOk', 'Export', 'ExportRec'], d)
    cov['meta_states'] = res.distinct
    if res.error:
        tool.append('MC_Meta: ' + res.error)
        return cov, tool
    if res.violated:
        rp = os.path.join(d, 'counterexample_meta.txt')
        open(rp, 'w').write('RedoMeta violates %s\n\n%s' % (res.violated, res.trace))
        verdict.violation('spec:meta:%s' % res.violated, rp, 'RedoMeta violates %s' % res.violated)
        return cov, tool
    table = []
    for r in rows:
        line = funcheck.js(r['line'])
        p = r['parse']
        if p['ok']:
            table.append((line, ('OK', funcheck.js(p['kind']), funcheck.js(p['pid']), funcheck.js(p['ts']), funcheck.js(p['text']))))
        else:
            table.append((line, ('ERR',)))
    got = funcheck.vfun_batch(exe, [('metaparse', ln) for ln, _ in table])
    bad = []
    for (ln, want), have in zip(table, got):
        h = have.split(US)
        if want[0] == 'ERR':
            if h[0] != 'ERR':
                bad.append({'line': ln, 'spec': 'rejected', 'parse': h})
        else:
            ok = h[0] == 'OK' and h[1] == want[1] and h[4] == want[4]
            if ok:
                try:
                    ok = int(h[2]) == int(want[2]) and abs(float(h[3]) - float(want[3])) < 1e-9
                except ValueError:
                    ok = False
            if not ok:
                bad.append({'line': ln, 'spec': want, 'parse': h})
    cov['meta_lines_compared'] = len(table)
    cov['meta_accepted_by_spec'] = sum(1 for _, w in table if w[0] == 'OK')
    if bad:
        rp = os.path.join(d, 'metaparse_mismatch.json')
        json.dump(bad[:200], open(rp, 'w'), indent=1)
        verdict.violation('fun:metaparse', rp, 'Meta::parse(%r): %s, specification says %s (%d mismatches)'
                          % (bad[0]['line'], bad[0]['parse'], bad[0]['spec'], len(bad)))
    return cov, tool


# ------------------------------------------------------------------------------------------------ follower model
def log_models(tier):
    """(name, targets, top, prog, norm)"""
    L = lambda n: {'op': 'line', 'n': n, 'nl': True, 'cs': []}
    P = lambda n: {'op': 'line', 'n': n, 'nl': False, 'cs': []}
    C = lambda *cs: {'op': 'call', 'n': 0, 'nl': True, 'cs': list(cs)}
    ms = []
    ms.append(('alias', 'all', {'all': [L(1), C('a', 'b'), L(2)], 'a': [L(1), C('x'), L(2)], 'b': [L(1), C('../x'), L(2)],
                                'x': [L(1), L(2)]}, {'../x': 'x'}))
    ms.append(('partial', 'all', {'all': [L(1), C('a'), L(2), C('b'), P(3)], 'a': [L(1), C('x'), P(2)], 'b': [C('x'), L(1)],
                                  'x': [L(1), P(2)]}, {}))
    ms.append(('chain', 'all', {'all': [C('a'), L(1)], 'a': [L(1), C('b'), L(2), C('c'), L(3)], 'b': [L(1), C('c')],
                                'c': [L(1)]}, {}))
    if tier == 'thorough':
        ms.append(('wide', 'all', {'all': [L(1), C('a', 'b', 'c'), L(2)], 'a': [L(1), C('x'), L(2)], 'b': [C('./x'), L(1), P(2)],
                                   'c': [L(1), C('x', 'a')], 'x': [L(1), L(2), L(3)]}, {'./x': 'x'}))
    return ms


def run_log_model(name, top, prog, alias, d, follow, normkey=True, flush=True, workers=4):
    targets = sorted(prog)
    norm = {t: t for t in targets}
    norm.update(alias)
    step = lambda st: '[op |-> %s, n |-> %d, nl |-> %s, cs |-> %s]' % (
        s(st['op']), st['n'], 'TRUE' if st['nl'] else 'FALSE', seq([s(c) for c in st['cs']]))
    mod = 'MCLog_%s_%s%s%s' % (name, 'live' if follow else 'replay', '' if normkey else '_rawkey', '' if flush else '_noflush')
    open(os.path.join(d, mod + '.tla'), 'w').write('\n'.join([
        '---- MODULE %s ----' % mod, 'EXTENDS RedoLog',
        'c_Prog == %s' % fn([(s(t), seq([step(x) for x in prog[t]])) for t in targets]),
        'c_Norm == %s' % fn([(s(k), s(v)) for k, v in sorted(norm.items())]), '====', '']))
    b = lambda x: 'TRUE' if x else 'FALSE'
    inv = ['Once', 'InOrder', 'Attributed', 'NoStray', 'DoOnce', 'FollowerEnds']
    open(os.path.join(d, mod + '.cfg'), 'w').write(
        'CONSTANT Targets = {%s}\nCONSTANT Top = %s\nCONSTANT Prog <- c_Prog\nCONSTANT Norm <- c_Norm\n'
        'CONSTANT Follow = %s\nCONSTANT NormKey = %s\nCONSTANT FlushPartial = %s\nSPECIFICATION Spec\n%sPROPERTY AppendOnly\n' % (
            ', '.join(s(t) for t in targets), s(top), b(follow), b(normkey), b(flush), ''.join('INVARIANT %s\n' % i for i in inv)))
    return common.run_tlc(mod, mod + '.cfg', d, workers=workers, timeout=1800)


def model_part(tier, d, verdict):
    cov = {'states': 0, 'transitions': 0, 'log_models': 0}
    tool = []
    jobs = [(m, follow) for m in log_models(tier) for follow in (False, True)]

    def one(job):
        (name, top, prog, alias), follow = job
        return job, run_log_model(name, top, prog, alias, d, follow, workers=3)
    with ThreadPoolExecutor(4) as ex:
        for ((name, top, prog, alias), follow), res in ex.map(one, jobs):
            cov['states'] += res.distinct
            cov['transitions'] += res.generated
            cov['log_models'] += 1
            if res.error:
                tool.append('RedoLog %s: %s' % (name, res.error))
            elif res.violated:
                rp = os.path.join(d, 'counterexample_log_%s_%s.txt' % (name, follow))
                open(rp, 'w').write('RedoLog (%s, follow=%s) violates %s\n\n%s' % (name, follow, res.violated, res.trace[:30000]))
                verdict.violation('spec:log:%s:%s' % (name, res.violated), rp, 'RedoLog violates %s (model %s, follow=%s)' % (res.violated, name, follow))
    # anti-vacuity: the two repaired behaviours must be counterexamples when switched back on
    ms = {m[0]: m for m in log_models(tier)}
    pinned = []
    for (mname, kw, want) in (('alias', {'normkey': False}, {'Once', 'Attributed'}), ('partial', {'flush': False}, {'NoStray'})):
        name, top, prog, alias = ms[mname]
        res = run_log_model(name, top, prog, alias, d, False, **kw)
        pinned.append({'model': mname, 'switch': kw, 'found': res.violated})
        if res.violated not in want:
            tool.append('anti-vacuity: RedoLog %s with %s should violate one of %s, TLC says %s' % (mname, kw, sorted(want), res.violated or res.error))
    cov['pinned_counterexamples'] = pinned
    return cov, tool


# ------------------------------------------------------------------------------------------------ real streams
def gen_log_project(rnd, n):
    """targets in two directories; scripts write self-identifying stderr lines `L <target> <k>`, call their
    dependencies between lines (by plain and by `..`/`./` spellings), may end with an unterminated line, write a
    very long line or a line that looks like a record"""
    dirs = ['', 'sub', 'sub/deep']
    targs = []
    for i in range(n):
        dd = rnd.choice(dirs) if i > 0 else ''
        targs.append((dd + '/' if dd else '') + 't%02d' % i)
    deps = {}
    for i, t in enumerate(targs):
        later = targs[i + 1:]
        deps[t] = rnd.sample(later, rnd.randint(0, min(3, len(later))))
    prog = {}
    for t in targs:
        steps = []
        k = 0
        pending = list(deps[t])
        rnd.shuffle(pending)
        nlines = rnd.randint(1, 4)
        for j in range(nlines):
            k += 1
            steps.append(('line', k, rnd.choice(['', '', '', 'long', 'fake', 'pieces'])))
            if pending and rnd.random() < 0.7:
                cut = rnd.randint(1, len(pending))
                steps.append(('call', pending[:cut]))
                pending = pending[cut:]
        if pending:
            steps.append(('call', pending))
            k += 1
            steps.append(('line', k, ''))
        if rnd.random() < 0.3:
            k += 1
            steps.append(('partial', k))
        prog[t] = (steps, k)
    return targs, deps, prog


def spell(rnd, frm, to):
    """a spelling of target `to` as seen from the directory of target `frm`"""
    fd = os.path.dirname(frm)
    rel = os.path.relpath(to, fd or '.')
    r = rnd.random()
    if r < 0.3:
        return rel
    if r < 0.5:
        return './' + rel
    if r < 0.7 and fd:
        return '../' + os.path.relpath(to, os.path.dirname(fd) or '.')
    if r < 0.85:
        return os.path.dirname(rel) + ('/' if os.path.dirname(rel) else '') + './' + os.path.basename(rel)
    return rel


def materialize_log_project(rnd, p, targs, prog):
    for dd in ('sub/deep',):
        os.makedirs(os.path.join(p, dd))
    os.makedirs(os.path.join(p, '.redo'))
    for t in targs:
        steps, _ = prog[t]
        lines = []
        for st in steps:
            if st[0] == 'line':
                k, flavour = st[1], st[2]
                pad = ''
                if flavour == 'long':
                    # (also lines made of two-byte characters, with an odd or even prefix: a fixed byte boundary falls
                    # inside a character for one of them)
                    pad = ' ' + rnd.choice(['x', 'x', '\u00e9', 'x\u00e9']) * rnd.choice([300, 5000, 70000])
                if flavour == 'pieces':
                    # one line reaching the follower in three reads (./configure style progress output)
                    lines.append('printf "L " >&2; sleep 0.07; printf "%s " >&2; sleep 0.07; printf "%d\\n" >&2' % (t, k))
                else:
                    lines.append('echo "L %s %d%s" >&2' % (t, k, pad))
                if flavour == 'fake':
                    lines.append('echo "@@REDO:do:1:nope@@ %s" >&2' % t)
            elif st[0] == 'partial':
                lines.append('printf "L %s %d" >&2' % (t, st[1]))
            else:
                lines.append('redo-ifchange %s' % ' '.join(spell(rnd, t, c) for c in st[1]))
        lines.append('echo out-%s' % os.path.basename(t))
        with open(os.path.join(p, t + '.do'), 'w') as f:
            f.write('\n'.join(lines) + '\n')


LINE_RE = re.compile(r'^L (\S+) (\d+)( [x\u00e9]+)?$')


def tokenize(text, exe, expect):
    """raw stream -> TraceLog events"""
    lines = text.split('\n')
    if lines and lines[-1] == '':
        lines.pop()
    cand = [ln for ln in lines if ln.startswith('@@REDO:')]
    parsed = dict(zip(cand, funcheck.vfun_batch(exe, [('metaparse', c) for c in cand]))) if cand else {}
    evs = [{'ev': 'Reset'}]
    for ln in lines:
        if ln.startswith('@@REDO:') and parsed[ln].startswith('OK'):
            h = parsed[ln].split(US)
            kind, text_ = h[1], h[4]
            if kind == 'do':
                evs.append({'ev': 'Do', 't': os.path.normpath(text_)})
            elif kind == 'resumed':
                evs.append({'ev': 'Resumed', 't': os.path.normpath(text_)})
            elif kind == 'done':
                evs.append({'ev': 'Done', 't': os.path.normpath(h[6]) if len(h) > 6 else text_})
            else:
                evs.append({'ev': 'Other', 'kind': kind})
            continue
        m = LINE_RE.match(ln)
        if m:
            evs.append({'ev': 'Line', 't': m.group(1), 'k': int(m.group(2))})
        elif '@@REDO:' in ln and not ln.startswith('@@REDO:'):
            evs.append({'ev': 'Glued', 'text': ln[:200]})
        else:
            evs.append({'ev': 'Other', 'kind': 'text'})
    evs.append({'ev': 'End', 'expect': [[t, n] for t, n in sorted(expect.items())]})
    return evs


def run_log_scenario(i, seed, root, bindir, exe):
    rnd = random.Random(seed)
    d = os.path.join(root, 'l%03d' % i)
    shutil.rmtree(d, ignore_errors=True)
    p = os.path.join(d, 'p')
    os.makedirs(p)
    targs, deps, prog = gen_log_project(rnd, rnd.choice([4, 6, 8, 10]))
    materialize_log_project(rnd, p, targs, prog)
    env = funcheck.clean_env(bindir)
    env.pop('REDO_LOG', None)
    j = rnd.choice([1, 2, 3, 4])
    top = targs[0]
    r = subprocess.run(['redo', '--no-pretty', '--no-color', '-j%d' % j, top], cwd=p, env=env, stdin=subprocess.DEVNULL,
                       stdout=subprocess.PIPE, stderr=subprocess.STDOUT, timeout=120)
    live = r.stdout.decode('utf-8', 'replace')
    r2 = subprocess.run(['redo-log', '-r', '--no-pretty', '--no-color', top], cwd=p, env=env, stdin=subprocess.DEVNULL,
                        stdout=subprocess.PIPE, stderr=subprocess.STDOUT, timeout=120)
    replay = r2.stdout.decode('utf-8', 'replace')
    # which targets are reachable from top: all of them ran in this fresh build
    reach, todo = set(), [top]
    while todo:
        x = todo.pop()
        if x not in reach:
            reach.add(x)
            todo += deps[x]
    expect = {t: prog[t][1] for t in reach}
    runs = [('live', tokenize(live, exe, expect)), ('replay', tokenize(replay, exe, expect))]
    with open(os.path.join(d, 'streams.json'), 'w') as f:
        json.dump({'seed': seed, 'j': j, 'top': top, 'deps': deps, 'expect': expect, 'rc': [r.returncode, r2.returncode],
                   'live': live[-20000:], 'replay': replay[-20000:]}, f, indent=1)
    probs = []
    if r.returncode != 0:
        probs.append('redo exited %s' % r.returncode)
    if r2.returncode != 0:
        probs.append('redo-log -r exited %s' % r2.returncode)
    return {'dir': d, 'runs': runs, 'problems': probs, 'seed': seed, 'j': j}


def append_only_part(tier, d, verdict, bindir):
    """binds RedoLog.AppendOnly: a reader that has the log of a target open keeps a file that only ever grows, whatever
    later builds of that target do (the log is replaced by a new file, not rewritten).  For a few targets: build, open
    .redo/log.<id>, read it; build the same target again (forced, different output, also while the first reader still
    holds the file); what the old descriptor reads must still start with what it read before."""
    import sqlite3
    root = os.path.join(d, 'append_only')
    shutil.rmtree(root, ignore_errors=True)
    n = 4 if tier == 'quick' else 20
    bad = 0
    checked = 0
    for i in range(n):
        p = os.path.join(root, 'a%02d' % i, 'p')
        os.makedirs(p)
        lines = 50 + 400 * i
        with open(os.path.join(p, 'big.do'), 'w') as f:
            f.write('k=0\nwhile [ $k -lt ${LINES:-%d} ]; do k=$((k+1)); echo "L big $k ${TAG:-one}" >&2; done\necho out\n' % lines)
        with open(os.path.join(p, 'top.do'), 'w') as f:
            f.write('redo-ifchange big\necho "L top 1" >&2\necho top\n')
        env = funcheck.clean_env(bindir)
        env.pop('REDO_LOG', None)
        r = subprocess.run(['redo', '--no-pretty', '--no-color', 'top'], cwd=p, env=env, stdin=subprocess.DEVNULL,
                           stdout=subprocess.PIPE, stderr=subprocess.STDOUT, timeout=120)
        con = sqlite3.connect('file:%s?mode=ro' % os.path.join(p, '.redo', 'db.sqlite3'), uri=True, timeout=30)
        try:
            ids = dict((nm, rid) for rid, nm in con.execute('select rowid, name from Files'))
        finally:
            con.close()
        for t in ('big', 'top'):
            lp = os.path.join(p, '.redo', 'log.%d' % ids[t])
            if not os.path.exists(lp):
                verdict.violation('run:nolog', os.path.dirname(p), 'no log file %s after building %s' % (lp, t))
                bad += 1
                continue
            fd = os.open(lp, os.O_RDONLY)
            try:
                before = os.read(fd, 1 << 24)
                env2 = dict(env, TAG='two', LINES=str(3 + i))
                r2 = subprocess.run(['redo', '--no-pretty', '--no-color', t], cwd=p, env=env2, stdin=subprocess.DEVNULL,
                                    stdout=subprocess.PIPE, stderr=subprocess.STDOUT, timeout=120)
                os.lseek(fd, 0, os.SEEK_SET)
                after = os.read(fd, 1 << 24)
            finally:
                os.close(fd)
            checked += 1
            if r2.returncode != 0 or not after.startswith(before) or not before:
                bad += 1
                rp = os.path.join(os.path.dirname(p), 'append_only_%s.txt' % t)
                with open(rp, 'w') as f:
                    f.write('target %s: the log a reader had open (%d bytes) reads as %d bytes after the target was built again\n'
                            'first bytes before: %r\nfirst bytes after: %r\n' % (t, len(before), len(after), before[:200], after[:200]))
                verdict.violation('log:append_only', rp,
                                  'the log file of %s that a reader holds open was rewritten by a later build (had %d bytes, now %d, '
                                  'prefix kept: %s)' % (t, len(before), len(after), after.startswith(before)))
    if not bad:
        shutil.rmtree(root, ignore_errors=True)
    return {'append_only_logs_checked': checked}


def stream_part(tier, d, verdict, bindir, exe):
    n = 40 if tier == 'quick' else 300
    rnd = random.Random(common.seed() * 31 + 18)
    seeds = [rnd.randrange(1 << 30) for _ in range(n)]
    root = os.path.join(d, 'streams')
    shutil.rmtree(root, ignore_errors=True)
    os.makedirs(root)
    with ThreadPoolExecutor(6) as ex:
        results = list(ex.map(lambda iz: run_log_scenario(iz[0], iz[1], root, bindir, exe), list(enumerate(seeds))))
    segs = []
    for r in results:
        for pb in r['problems']:
            verdict.violation('run:' + pb.split(' exited')[0], r['dir'], 'log scenario seed %d (-j%d): %s' % (r['seed'], r['j'], pb))
        for kind, evs in r['runs']:
            segs.append((r, kind, evs))
    total = sum(len(e) for _, _, e in segs)
    accepted = 0
    rounds = 0
    while segs and rounds < 15:
        rounds += 1
        path = os.path.join(d, 'log_trace_%d.ndjson' % rounds)
        tracecheck.write_ndjson([x for _, _, evs in segs for x in evs], path)
        tr = tracecheck.validate('TraceLog', path, d, ['Accepted'], timeout=900)
        if tr.error:
            raise common.ToolError('TraceLog: ' + tr.error)
        if tr.ok:
            accepted += len(segs)
            break
        pos, bad_i = 0, len(segs) - 1
        for i, (_, _, evs) in enumerate(segs):
            if pos + len(evs) >= max(tr.reached, 1):
                bad_i = i
                break
            pos += len(evs)
        r, kind, evs = segs[bad_i]
        m = re.search(r'bad = "([^"]*)"', tr.detail)
        why = m.group(1) if m else tr.violated
        rp = os.path.join(r['dir'], 'tracelog_%s.txt' % kind)
        open(rp, 'w').write('%s stream rejected by TraceLog: %s\n\n%s' % (kind, why, tr.detail))
        verdict.violation('trace:TraceLog:%s:%s' % (kind, why), r['dir'],
                          '%s output of scenario seed %d (-j%d): %s\n%s' % (kind, r['seed'], r['j'], why, tr.detail[-800:]))
        accepted += bad_i
        segs = segs[bad_i + 1:]
    bad_dirs = set(v[1] for v in verdict.violations)
    for r in results:
        if r['dir'] not in bad_dirs:
            shutil.rmtree(r['dir'], ignore_errors=True)
    return {'log_scenarios': len(results), 'streams': 2 * len(results), 'stream_events': total,
            'traces_validated_against_impl': accepted}
