"""C08 / C09 (and the shared real-run machinery): model checking of RedoJobs, then real parallel builds whose
event traces are validated against TraceJobs."""
import json
import os
import random
import shutil
import time
from concurrent.futures import ThreadPoolExecutor

import common
import jobdrive
import jobs
import tracecheck

TRACE_INV = ['Accepted', 'Conservation', 'ExitBalanced', 'NoAbandon', 'MaxWork', 'Quiescent']


def roots(pj):
    used = set(x for ds in pj['deps'].values() for x in ds)
    return [t for t in pj['targs'] if t not in used]


def scenario_list(tier, seed, focus):
    """focus 'tokens' (C08): -j sweep, inherited jobservers with an active world, failures;
    focus 'sched' (C09): delayed select wake-ups, duplicate targets, contention between invocations"""
    rnd = random.Random(seed * 7919 + (1 if focus == 'tokens' else 2))
    n = {'quick': 28, 'thorough': 160}[tier]
    out = []
    for i in range(n):
        size = rnd.choice([4, 6, 8, 12, 16] if tier == 'quick' else [4, 6, 8, 12, 16, 24, 40])
        sc = {'id': i, 'size': size, 'seed': rnd.randrange(1 << 30),
              'j': rnd.choice([1, 2, 2, 3, 4, 8]),
              'fail': rnd.choice([0, 0, 0, 1, 2]),
              'stamp': rnd.choice([0, 0, 1, 2]),
              'keep': rnd.random() < 0.5,
              'log': rnd.random() < (0.35 if focus == 'tokens' else 0.5),
              'inherit': focus == 'tokens' and rnd.random() < 0.4,
              'world_active': rnd.random() < 0.6,
              'delay': focus == 'sched' and rnd.random() < 0.7,
              'dup': focus == 'sched' and rnd.random() < 0.3,
              'second': rnd.random() < 0.5,          # a second command after editing src
              'concurrent': (focus == 'sched' and rnd.random() < 0.35)}
        # every third scenario under controlled scheduling (harness.Serializer: uniform / PCT priorities over all gates of
        # the hooked redo): branches of the build are starved for long stretches, many jobs are ready at one select()
        sc['serial'] = i % 3 == 2
        out.append(sc)
    return out


def run_scenario(sc, root, bindir):
    """returns dict: problems (list of str), trace (path), cmds (list)"""
    rnd = random.Random(sc['seed'])
    d = os.path.join(root, 's%03d' % sc['id'])
    shutil.rmtree(d, ignore_errors=True)
    os.makedirs(d)
    pj = jobdrive.gen_project(rnd, sc['size'], fail=min(sc['fail'], sc['size'] - 1), stamp=sc['stamp'])
    pdir = os.path.join(d, 'p')
    jobdrive.materialize(pj, pdir)
    trace = os.path.join(d, 'trace.ndjson')
    open(trace, 'w').close()
    rts = roots(pj)
    if sc['dup'] and rts:
        rts = rts + [rts[0]]
    import itertools
    gate_no = itertools.count()
    problems = []
    cmds = []
    extra = {}
    if not sc['log']:
        extra['REDO_LOG'] = '0'
    expect_ok = not pj['fail']

    def one_command(argv, world_tokens=None, concurrent_with=None):
        world = None
        if world_tokens is not None:
            world = jobdrive.World(world_tokens, trace, rnd, active=sc['world_active'])
        gate = None
        if sc.get('serial'):
            import harness
            gate = harness.Serializer(os.path.join(d, 'sgate%d' % next(gate_no)), sc['seed'] % 100000 + next(gate_no), settle=0.008)
        elif sc['delay']:
            gate = jobdrive.SelectDelayer(os.path.join(d, 'gate%d' % next(gate_no)), random.Random(rnd.random()))
        try:
            r = jobdrive.run_build(bindir, pdir, trace, argv, timeout=90, world=world, gate=gate, extra_env=extra)
        finally:
            if gate:
                gate.close()
        if world:
            toks, cheats = world.finish()
            r['world'] = {'tokens_left': toks, 'cheat_bytes_left': cheats, 'tokens_given': world_tokens}
            if toks - cheats != world_tokens:
                problems.append('inherited jobserver: gave %d tokens, %d-%d left after %s'
                                % (world_tokens, toks, cheats, ' '.join(argv)))
        r['stderr'] = r['stderr'][-3000:]
        r['stdout'] = r['stdout'][-500:]
        cmds.append(r)
        for pb in jobdrive.classify(r, expect_ok if not sc['concurrent'] else None):
            problems.append('%s: %s' % (' '.join(argv), pb))
        return r

    argv = ['redo']
    if sc['keep']:
        argv.append('-k')
    if sc['inherit']:
        one_command(argv + rts, world_tokens=sc['j'] - 1)
    elif sc['concurrent']:
        # two invocations at once on overlapping targets
        import threading
        a2 = ['redo', '-j%d' % max(1, sc['j'] - 1)] + list(reversed(rts))
        th = threading.Thread(target=one_command, args=(a2,))
        th.start()
        time.sleep(rnd.random() * 0.05)
        one_command(argv + ['-j%d' % sc['j']] + rts)
        th.join()
    else:
        one_command(argv + ['-j%d' % sc['j']] + rts)
    if sc['second']:
        time.sleep(0.01)
        with open(os.path.join(pdir, 'src'), 'w') as f:
            f.write('v2\n')
        a = ['redo-ifchange'] + rts
        if sc['inherit']:
            one_command(a, world_tokens=sc['j'] - 1)
        else:
            # redo-ifchange at top level has no -j: run it under `redo -jN` through a wrapper target? no: plain
            one_command(a)
    with open(os.path.join(d, 'scenario.json'), 'w') as f:
        json.dump({'scenario': sc, 'project': pj, 'commands': cmds, 'problems': problems}, f, indent=1)
    return {'sc': sc, 'dir': d, 'trace': trace, 'problems': problems, 'cmds': cmds, 'pj': pj}


def validate_runs(results, root, world_j=None):
    """concatenate the token projections of all runs into one file per TLC invocation; on a violation, attribute
    it to its run, drop that run and continue with the rest"""
    segs = []         # (result, records)
    for res in results:
        try:
            evs = tracecheck.load(res['trace'])
        except tracecheck.TraceError as ex:
            res['problems'].append('unusable trace: %s' % ex)
            continue
        wj = {'j': res['sc']['j']} if res['sc']['inherit'] else None
        for run in tracecheck.jobs_runs(evs, world=wj):
            segs.append((res, run))
    total_events = sum(len(r) for _, r in segs)
    validated = 0
    violations = []
    wall = 0.0
    rounds = 0
    while segs and rounds < 12:
        rounds += 1
        path = os.path.join(root, 'jobs_trace_%d.ndjson' % rounds)
        recs = [x for _, run in segs for x in run]
        tracecheck.write_ndjson(recs, path)
        tr = tracecheck.validate('TraceJobs', path, root, TRACE_INV, timeout=900)
        wall += tr.wall
        if tr.error:
            raise common.ToolError('trace validation failed: %s' % tr.error)
        if tr.ok:
            validated += len(segs)
            break
        # find the segment containing record number tr.reached (1-based index of the last consumed record)
        pos = 0
        bad_i = None
        for i, (_, run) in enumerate(segs):
            if pos + len(run) >= max(tr.reached, 1):
                bad_i = i
                break
            pos += len(run)
        if bad_i is None:
            bad_i = len(segs) - 1
        res, run = segs[bad_i]
        violations.append((res, tr.violated, tr.detail, path))
        validated += bad_i
        segs = segs[bad_i + 1:]
    return {'segments': validated + len(violations), 'accepted': validated, 'events': total_events,
            'violations': violations, 'wall': wall}


def mc_part(tier, d, verdict, pid, invariants):
    fam = jobs.family(tier)
    tot_s = tot_t = 0
    cover = {}
    tool = []

    def one(sc):
        return sc, jobs.run_mc(sc, d, invariants=invariants, workers=3, timeout=1800)
    with ThreadPoolExecutor(5) as ex:
        for sc, (res, tr) in ex.map(one, fam):
            tot_s += res.distinct
            tot_t += res.generated
            for a, (dist, tot) in res.coverage.items():
                c = cover.setdefault(a, 0)
                cover[a] = c + tot
            if res.error:
                tool.append('%s: %s' % (sc['name'], res.error))
            elif res.violated:
                rp = os.path.join(d, 'counterexample_%s.txt' % sc['name'])
                with open(rp, 'w') as f:
                    f.write('scenario: %s\ninvariant %s violated in RedoJobs\n\n%s\n\n%s' % (
                        json.dumps(sc), res.violated, jobs.summarize_trace(tr), res.trace[:20000]))
                verdict.violation('spec:%s:%s' % (sc['name'], res.violated), rp,
                                  'RedoJobs violates %s in scenario %s' % (res.violated, sc['name']))
    return {'states': tot_s, 'transitions': tot_t, 'scenarios': len(fam), 'action_coverage': cover}, tool


def real_part(tier, pid, focus, verdict):
    bindir = common.build_redo()
    root = common.workdir('%s_%s_real' % (pid, tier))
    scs = scenario_list(tier, common.seed(), focus)
    with ThreadPoolExecutor(6) as ex:
        results = list(ex.map(lambda sc: run_scenario(sc, root, bindir), scs))
    n_cheat = 0
    if focus == 'tokens':
        for k in range(2 if tier == 'quick' else 6):
            ce = cheat_exit_scenario(root, bindir, verdict)
            ce['sc'] = dict(ce['sc'], id='cheat_exit_%d' % k)
            n_cheat += 1 if ce['cheated'] else 0
            results.append(ce)
            if ce['cheated']:
                break
        for k in range(2 if tier == 'quick' else 6):
            ce = cheat_exit_scenario(root, bindir, verdict, fail=True)
            ce['sc'] = dict(ce['sc'], id='cheat_exit_fail_%d' % k)
            n_cheat += 1 if ce['cheated'] else 0
            results.append(ce)
            if ce['cheated']:
                break
        cei = cheat_exit_inherit_scenario(root, bindir)
        n_cheat += 1 if cei['cheated'] else 0
        results.append(cei)
        results.append(cycle_parallel_scenario(root, bindir))
        nc = nested_cheat_scenario(root, bindir)
        results.append(nc)
        n_cheat += 1 if nc['cheated'] else 0
    n_coinc = 0
    if focus == 'sched':
        for fl in (False, True):
            ce = cheat_exit_scenario(root, bindir, verdict, fail=fl)
            n_cheat += 1 if ce['cheated'] else 0
            results.append(ce)
        results.append(lockwait_batch_scenario(root, bindir))
        with ThreadPoolExecutor(4) as ex:
            tts = list(ex.map(lambda k: token_timer_scenario(root, bindir, k), range(4 if tier == 'quick' else 12)))
        for tt in tts:
            n_coinc += tt['coincidences']
            results.append(tt)
    val = validate_runs(results, root)
    # how often did several events become ready in one wake-up of a redo process (what the delayed select gate is for)
    sel = {'select_wakeups': 0, 'wakeups_with_2_or_more_ready': 0, 'wakeups_with_token_and_child_exit': 0,
           'targets_found_locked': 0, 'blocking_lock_waits': 0}
    for r in results:
        try:
            with open(r['trace']) as f:
                for ln in f:
                    if '"ev":"Select"' in ln:
                        try:
                            rd = json.loads(ln).get('ready', [])
                        except ValueError:
                            continue
                        sel['select_wakeups'] += 1
                        if len(rd) >= 2:
                            sel['wakeups_with_2_or_more_ready'] += 1
                        if 0 in rd and any(x != 0 for x in rd):
                            sel['wakeups_with_token_and_child_exit'] += 1
                    elif '"ev":"Queued"' in ln:
                        sel['targets_found_locked'] += 1
                    elif '"ev":"LockWait"' in ln and '"fid":0' not in ln:
                        sel['blocking_lock_waits'] += 1
        except OSError:
            pass
    n_cmds = sum(len(r['cmds']) for r in results)
    locks_cov = {}
    if focus == 'sched':
        # the deadlock-freedom discipline of the second phase (no blocking lock wait while holding a target lock or
        # owing a result) is checked on the lock events of the same executions
        import multicheck
        lv = multicheck.validate([r for r in results if 'pj' in r], root, 'TraceLocks',
                                 lambda evs, res: tracecheck.locks_run(evs), ['Accepted', 'Mutex'])
        locks_cov = {'TraceLocks_events': lv['events'], 'TraceLocks_accepted': lv['accepted']}
        for (r, inv, detail) in lv['violations']:
            import re
            m = re.search(r'bad = "([^"]*)"', detail)
            why = m.group(1) if m else inv
            if 'blocking lock wait' not in why:
                continue          # the other rules of TraceLocks are C06's subject
            rp = os.path.join(r['dir'], 'tracelocks_violation.txt')
            with open(rp, 'w') as f:
                f.write(detail)
            verdict.violation('trace:TraceLocks:%s' % why, r['dir'], 'TraceLocks: %s (scenario %s)\n%s' % (why, json.dumps(r['sc']), detail[-1200:]))
    for r in results:
        for pb in r['problems']:
            kind = pb.split(':')[1].strip().split(' ')[0] if ':' in pb else 'run'
            verdict.violation('run:%s:%s' % (focus, classify_key(pb)), r['dir'], 'scenario %s: %s' % (json.dumps(r['sc']), pb))
    for (r, inv, detail, path) in val['violations']:
        rp = os.path.join(r['dir'], 'trace_violation.txt')
        with open(rp, 'w') as f:
            f.write('invariant %s of TraceJobs violated by the recorded execution\nscenario %s\n\n%s\n' % (
                inv, json.dumps(r['sc']), detail))
        verdict.violation('trace:%s:%s' % (inv, trace_key(detail)), r['dir'],
                          'recorded execution violates %s (scenario %s)\n%s' % (inv, json.dumps(r['sc']), detail[-1500:]))
    sample = None
    for r in results:
        if not r['problems']:
            sample = {'scenario': r['sc'], 'commands': [' '.join(c['argv']) for c in r['cmds']],
                      'exit': [c['rc'] for c in r['cmds']]}
            break
    ok_dirs = [r['dir'] for r in results if not r['problems'] and not any(v[0] is r for v in val['violations'])]
    for dd in ok_dirs:
        shutil.rmtree(dd, ignore_errors=True)
    return {**locks_cov, **sel, 'cheat_scenarios_that_cheated': n_cheat, 'token_and_timeout_coincidences_forced': n_coinc, 'real_builds': len(results), 'real_commands': n_cmds, 'trace_events': val['events'],
            'trace_segments': val['segments'], 'traces_validated_against_impl': val['accepted'],
            'trace_invariants': TRACE_INV, 'sample_real': sample,
            'configs': {'inherited': sum(1 for s in scs if s['inherit']),
                        'seed': common.seed(), 'log_capture': sum(1 for s in scs if s['log']),
                        'delayed_select': sum(1 for s in scs if s['delay']),
                        'concurrent': sum(1 for s in scs if s['concurrent']),
                        'failing': sum(1 for s in scs if s['fail'])}}


def cheat_exit_scenario(root, bindir, verdict, fail=False):
    """deterministic scenario in which a sub-redo gives up its token while it waits for a lock held by another
    invocation, borrows one (the log viewer follows its target), builds on it and has nothing left when it exits;
    with fail=True the job built on the borrowed token fails, so the process leaves with an error"""
    import subprocess
    d = os.path.join(root, 'cheat_exit_fail' if fail else 'cheat_exit')
    shutil.rmtree(d, ignore_errors=True)
    p = os.path.join(d, 'p')
    os.makedirs(p)
    files = {'a.do': 'redo-ifchange x\necho "a working" >&2\nsleep 1.0\necho a\n',
             'b.do': 'sleep 2\necho b\n',
             'x.do': 'if [ -n "$FAILX" ]; then sleep 1.5; echo "x fails" >&2; exit 1; fi\nsleep 0.2\n'
                     'if [ -n "$FAILA" ]; then echo "x fails again" >&2; exit 1; fi\necho x\n'}
    for n, t in files.items():
        with open(os.path.join(p, n), 'w') as f:
            f.write(t)
    trace = os.path.join(d, 'trace.ndjson')
    open(trace, 'w').close()
    tb = os.path.join(d, 'traceB.ndjson')
    envb = jobdrive.base_env(bindir, tb, {'FAILX': '1'})
    pb = subprocess.Popen(['redo', 'x'], cwd=p, env=envb, stdin=subprocess.DEVNULL, stdout=subprocess.DEVNULL,
                          stderr=subprocess.DEVNULL, start_new_session=True)
    time.sleep(0.4)
    r = jobdrive.run_build(bindir, p, trace, ['redo', '-j1', 'a', 'b'], timeout=60, extra_env={'FAILA': '1'} if fail else None)
    pb.wait()
    sc = {'id': 'cheat_exit_fail' if fail else 'cheat_exit', 'j': 1, 'inherit': False}
    probs = jobdrive.classify(r, not fail)
    cheated = '"ev":"Cheat"' in open(trace).read()
    res = {'sc': sc, 'dir': d, 'trace': trace, 'problems': ['redo -j1 a b: ' + x for x in probs], 'cmds': [r], 'pj': files,
           'cheated': cheated}
    with open(os.path.join(d, 'scenario.json'), 'w') as f:
        json.dump({'scenario': sc, 'files': files, 'commands': [r], 'problems': res['problems'], 'cheated': cheated}, f, indent=1)
    return res


def cheat_exit_inherit_scenario(root, bindir):
    """the cheat_exit situation below an *inherited* jobserver (the harness is make and has no spare token): the sub-redo of
    target a gives its token up for a lock wait, make takes it; the sub-redo borrows (the log viewer follows a), builds on
    the borrowed token and leaves a byte on the cheat pipe; the outermost redo eats that byte when it reaps a and has no token
    left: it must get one back (make returns it later) before it exits, or the pool ends with one token too many"""
    import subprocess
    import threading
    d = os.path.join(root, 'cheat_exit_inherit')
    shutil.rmtree(d, ignore_errors=True)
    p = os.path.join(d, 'p')
    os.makedirs(p)
    files = {'a.do': 'redo-ifchange x\necho "a working" >&2\nsleep 1.0\necho a\n',
             'x.do': 'if [ -n "$FAILX" ]; then sleep 1.5; echo "x fails" >&2; exit 1; fi\nsleep 0.2\necho x\n'}
    for n, t in files.items():
        with open(os.path.join(p, n), 'w') as f:
            f.write(t)
    trace = os.path.join(d, 'trace.ndjson')
    open(trace, 'w').close()
    tb = os.path.join(d, 'traceB.ndjson')
    pb = subprocess.Popen(['redo', 'x'], cwd=p, env=jobdrive.base_env(bindir, tb, {'FAILX': '1'}), stdin=subprocess.DEVNULL,
                          stdout=subprocess.DEVNULL, stderr=subprocess.DEVNULL, start_new_session=True)
    time.sleep(0.4)
    world = jobdrive.World(0, trace, random.Random(5), active=False)
    os.set_blocking(world.r, False)
    state = {'held': 0, 'stop': False, 'returned': False}
    lock = threading.Lock()

    def taker():
        while not state['stop'] and not state['returned']:
            try:
                b = os.read(world.r, 1)
            except BlockingIOError:
                b = b''
            if b:
                with lock:
                    state['held'] += 1
                world.emit('WorldTake', n=1)
            else:
                time.sleep(0.002)

    def give_back():
        state['returned'] = True
        time.sleep(0.01)
        with lock:
            n, state['held'] = state['held'], 0
        for _ in range(n):
            world.emit('WorldPut', n=1)
            os.write(world.w, b't')
    th = threading.Thread(target=taker, daemon=True)
    timer = threading.Timer(5.5, give_back)
    pa = subprocess.Popen(['redo', 'a'], cwd=p, env=jobdrive.base_env(bindir, trace, world.env()), stdin=subprocess.DEVNULL,
                          stdout=subprocess.PIPE, stderr=subprocess.PIPE, start_new_session=True, pass_fds=world.fds())
    world.dom = pa.pid
    th.start()
    timer.start()
    to = False
    try:
        so, se = pa.communicate(timeout=40)
    except subprocess.TimeoutExpired:
        to = True
        snap = jobdrive.process_snapshot(pa.pid)
        try:
            os.killpg(pa.pid, 9)
        except ProcessLookupError:
            pass
        so, se = pa.communicate()
        se += ('\n[harness] did not terminate; snapshot:\n' + snap).encode()
    early = not state['returned']          # the command ended before make gave the token back
    timer.cancel()
    state['stop'] = True
    th.join()
    give_back()
    toks, cheats = world.finish()
    pb.wait()
    r = {'rc': pa.returncode, 'stdout': so.decode('utf-8', 'replace')[-500:], 'stderr': se.decode('utf-8', 'replace')[-3000:],
         'timed_out': to, 'pid': pa.pid, 'argv': ['redo', 'a'],
         'world': {'tokens_left': toks, 'cheat_bytes_left': cheats, 'tokens_given': 0}}
    probs = ['redo a (under the harness jobserver): ' + x for x in jobdrive.classify(r, True)]
    if toks - cheats != 0:
        probs.append('inherited jobserver: gave 0 tokens, %d-%d left after redo a' % (toks, cheats))
    cheated = '"ev":"Cheat"' in open(trace).read()
    res = {'sc': {'id': 'cheat_exit_inherit', 'j': 1, 'inherit': True}, 'dir': d, 'trace': trace, 'problems': probs, 'cmds': [r],
           'pj': files, 'cheated': cheated, 'ended_before_token_returned': early}
    with open(os.path.join(d, 'scenario.json'), 'w') as f:
        json.dump({'scenario': res['sc'], 'files': files, 'commands': [r], 'problems': probs, 'cheated': cheated,
                   'ended_before_token_returned': early}, f, indent=1)
    return res


def apalache_part(d, verdict, pid):
    """Conservation as an inductive invariant over arbitrary counter values (spec/TokInd.tla, Apalache)"""
    import subprocess
    wd = os.path.join(d, 'apalache')
    shutil.rmtree(wd, ignore_errors=True)
    os.makedirs(wd)
    for f in ('TokInd.tla', 'RedoTok.tla'):
        shutil.copy(os.path.join(common.SPEC, f), wd)
    runs = [('base', ['--init=Init', '--length=0'], 'NoError'),
            ('step', ['--init=IndInit', '--length=1'], 'NoError'),
            ('pinned_exit', ['--init=IndInit', '--next=NextPinned', '--length=1'], 'Error')]
    out = {}
    tool = []
    for name, args, want in runs:
        t0 = time.time()
        try:
            r = subprocess.run(['apalache-mc', 'check', '--cinit=ConstInit', '--inv=IndInv', '--out-dir=' + os.path.join(wd, 'out_' + name)]
                               + args + ['TokInd.tla'], cwd=wd, stdout=subprocess.PIPE, stderr=subprocess.STDOUT, text=True, timeout=1200)
            txt = r.stdout
        except subprocess.TimeoutExpired:
            txt = 'timeout'
        import re
        m = re.search(r'The outcome is: (\w+)', txt)
        got = m.group(1) if m else 'unknown'
        out[name] = {'outcome': got, 'wall_s': round(time.time() - t0, 1)}
        if got != want:
            if name == 'pinned_exit' or got == 'unknown':
                tool.append('apalache %s: outcome %s, expected %s\n%s' % (name, got, want, txt[-1500:]))
            else:
                rp = os.path.join(wd, 'apalache_%s.txt' % name)
                open(rp, 'w').write(txt[-20000:])
                verdict.violation('apalache:%s' % name, rp, 'TokInd: the conservation invariant is not inductive (%s): %s' % (name, got))
    shutil.rmtree(os.path.join(wd, '_apalache-out'), ignore_errors=True)
    return out, tool


def nested_cheat_scenario(root, bindir):
    """a nested `redo -j2` inside a script (a second token pool with its own pipes) while a job of the outer pool gives up
    its token waiting for a lock, is starved when the lock frees and cheats because the log viewer follows it"""
    d = os.path.join(root, 'nested_cheat')
    shutil.rmtree(d, ignore_errors=True)
    p = os.path.join(d, 'p')
    os.makedirs(p)
    files = {'a.do': 'redo-ifchange c b e\n',
             'c.do': 'sleep 0.5\nredo-ifchange d\nsleep 1.5\n',
             'b.do': 'redo-ifchange d\nsleep 2.3\n',
             'd.do': 'sleep 1\n',
             'e.do': 'redo -j2 f\n',
             'f.do': 'sleep 1.3\n'}
    for n, t in files.items():
        with open(os.path.join(p, n), 'w') as f:
            f.write(t)
    trace = os.path.join(d, 'trace.ndjson')
    open(trace, 'w').close()
    r = jobdrive.run_build(bindir, p, trace, ['redo', '-j2', 'a'], timeout=90)
    probs = jobdrive.classify(r, True)
    txt = open(trace).read()
    res = {'sc': {'id': 'nested_cheat', 'j': 2, 'inherit': False}, 'dir': d, 'trace': trace,
           'problems': ['redo -j2 a: ' + x for x in probs], 'cmds': [r], 'pj': files,
           'cheated': '"ev":"Cheat"' in txt, 'nested': txt.count('"ev":"JsSetup","own":true') >= 2}
    with open(os.path.join(d, 'scenario.json'), 'w') as f:
        json.dump({'scenario': res['sc'], 'files': files, 'commands': [r], 'problems': res['problems'],
                   'cheated': res['cheated'], 'nested': res['nested']}, f, indent=1)
    return res


class FixedDelayer(jobdrive.SelectDelayer):
    """answers the `select` gate requests chosen by `when(fields)` after a fixed delay, the others at once"""

    def __init__(self, gdir, delay, when):
        super().__init__(gdir, random.Random(0))
        self.delay_fn = lambda fields: delay if when(fields) else 0.0


def lockwait_batch_scenario(root, bindir):
    """the lock hand-over path with several finished jobs at once: invocation B is inside the script of t (and will ask
    for u1..u5 later); invocation A runs `redo -j6 t u1..u5`: t is locked, the five u-jobs finish at once and, because A's
    select() is delayed, are all reaped in one wake-up; A then has to wait for t's lock.  It must have recorded all five
    results and released their locks before it blocks (else B, which needs them, and A wait for each other)."""
    import subprocess
    d = os.path.join(root, 'lockwait_batch')
    shutil.rmtree(d, ignore_errors=True)
    p = os.path.join(d, 'p')
    os.makedirs(p)
    us = ['u%d' % i for i in range(1, 6)]
    files = {'t.do': 'sleep 2.6\nredo-ifchange %s\necho t\n' % ' '.join(us)}
    for u in us:
        files[u + '.do'] = 'sleep 0.6\necho %s\n' % u
    for n, t in files.items():
        with open(os.path.join(p, n), 'w') as f:
            f.write(t)
    trace = os.path.join(d, 'trace.ndjson')
    open(trace, 'w').close()
    envb = jobdrive.base_env(bindir, trace, {'REDO_LOG': '0'})
    pb = subprocess.Popen(['redo', 't'], cwd=p, env=envb, stdin=subprocess.DEVNULL, stdout=subprocess.DEVNULL,
                          stderr=subprocess.PIPE, start_new_session=True)
    time.sleep(0.3)
    # hold A's select() once all five jobs are running, until they have all exited
    gate = FixedDelayer(os.path.join(d, 'gate'), 1.0, lambda f: f.get('jobs', 0) >= 5)
    try:
        r = jobdrive.run_build(bindir, p, trace, ['redo', '-j6', 't'] + us, timeout=25, gate=gate, extra_env={'REDO_LOG': '0'})
    finally:
        gate.close()
    try:
        pb.wait(timeout=30)
        rb = {'argv': ['redo', 't'], 'rc': pb.returncode, 'stderr': pb.stderr.read().decode('utf-8', 'replace')[-1500:],
              'timed_out': False, 'stdout': ''}
    except subprocess.TimeoutExpired:
        snap = jobdrive.process_snapshot(pb.pid)
        try:
            os.killpg(pb.pid, 9)
        except ProcessLookupError:
            pass
        rb = {'argv': ['redo', 't'], 'rc': -9, 'stderr': 'did not terminate; snapshot:\n' + snap, 'timed_out': True, 'stdout': ''}
    probs = ['redo -j6 t u1..u5: ' + x for x in jobdrive.classify(r, True)] + ['redo t: ' + x for x in jobdrive.classify(rb, True)]
    txt = open(trace).read()
    res = {'sc': {'id': 'lockwait_batch', 'j': 6, 'inherit': False}, 'dir': d, 'trace': trace, 'problems': probs, 'cmds': [r, rb],
           'pj': files, 'queued': '"ev":"Queued"' in txt, 'waited': '"ev":"LockWait"' in txt}
    with open(os.path.join(d, 'scenario.json'), 'w') as f:
        json.dump({'scenario': res['sc'], 'files': files, 'commands': [r, rb], 'problems': probs,
                   'queued': res['queued'], 'waited': res['waited']}, f, indent=1)
    return res


def token_timer_scenario(root, bindir, k=0):
    """a token arriving and the token-wait timeout expiring between two wake-ups of an idle process (RedoJobs: TimerFire and a
    readable token pipe before one Select of a process in the `sel` state of ensure_token_or_cheat).  Invocation B builds x
    (2 s).  Invocation A, `redo x` under the harness as parent jobserver with no spare token, finds x locked, gives up its
    only token for the blocking lock wait; the harness (make) takes that token.  When A has the lock and waits for a token
    again (select gate: want, no jobs, no token) the harness holds A's select() until the timeout of that wait is over,
    returns the token meanwhile, and lets A go on: A's next poll finds both the token and the expired timer."""
    import subprocess
    import threading
    d = os.path.join(root, 'token_timer_%d' % k)
    shutil.rmtree(d, ignore_errors=True)
    p = os.path.join(d, 'p')
    os.makedirs(p)
    files = {'x.do': 'sleep 1.5\necho x\n'}
    for n, t in files.items():
        with open(os.path.join(p, n), 'w') as f:
            f.write(t)
    trace = os.path.join(d, 'trace.ndjson')
    open(trace, 'w').close()
    envb = jobdrive.base_env(bindir, trace, {'REDO_LOG': '0'})
    pb = subprocess.Popen(['redo', 'x'], cwd=p, env=envb, stdin=subprocess.DEVNULL, stdout=subprocess.DEVNULL,
                          stderr=subprocess.PIPE, start_new_session=True)
    time.sleep(0.3)
    world = jobdrive.World(0, trace, random.Random(k), active=False)
    os.set_blocking(world.r, False)
    state = {'held': 0, 'matching': 0, 'coincidences': 0, 'stop': False}
    lock = threading.Lock()

    def taker():       # make takes every token that appears in the pipe and keeps it
        while not state['stop'] and not state.get('returned'):
            try:
                b = os.read(world.r, 1)
            except BlockingIOError:
                b = b''
            if b:
                with lock:
                    state['held'] += 1
                world.emit('WorldTake', n=1)
            else:
                time.sleep(0.002)

    def give_back():
        state['returned'] = True        # from now on make leaves the tokens alone
        time.sleep(0.01)
        with lock:
            n = state['held']
            state['held'] = 0
        for _ in range(n):
            world.emit('WorldPut', n=1)
            os.write(world.w, b't')

    def delay_fn(fields):
        if fields.get('want') and fields.get('jobs', 0) == 0 and fields.get('my', 1) == 0 and state['held'] > 0:
            state['matching'] += 1
            if state['matching'] == 3 + k:        # the timeouts so far: 10, 20, 40 ms ...; this one is over after 0.5 s
                state['coincidences'] += 1
                threading.Timer(0.5, give_back).start()
                return 0.6
        return 0.0
    gate = FixedDelayer(os.path.join(d, 'gate'), 0.0, lambda f: False)
    gate.delay_fn = delay_fn
    th = threading.Thread(target=taker, daemon=True)
    try:
        extra = dict(world.env(), **gate.env())
        extra['REDO_LOG'] = '0'
        pa = subprocess.Popen(['redo', 'x'], cwd=p, env=jobdrive.base_env(bindir, trace, extra), stdin=subprocess.DEVNULL,
                              stdout=subprocess.PIPE, stderr=subprocess.PIPE, start_new_session=True, pass_fds=world.fds())
        world.dom = pa.pid
        th.start()
        to = False
        try:
            so, se = pa.communicate(timeout=25)
        except subprocess.TimeoutExpired:
            to = True
            snap = jobdrive.process_snapshot(pa.pid)
            try:
                os.killpg(pa.pid, 9)
            except ProcessLookupError:
                pass
            so, se = pa.communicate()
            se += ('\n[harness] did not terminate; snapshot:\n' + snap).encode()
        r = {'rc': pa.returncode, 'stdout': so.decode('utf-8', 'replace')[-500:], 'stderr': se.decode('utf-8', 'replace')[-3000:],
             'timed_out': to, 'pid': pa.pid, 'argv': ['redo', 'x']}
    finally:
        state['stop'] = True
        if th.is_alive():
            th.join()
        gate.close()
    give_back()
    toks, cheats = world.finish()
    r['world'] = {'tokens_left': toks, 'cheat_bytes_left': cheats, 'tokens_given': 0}
    try:
        pb.wait(timeout=30)
        rb = {'argv': ['redo', 'x'], 'rc': pb.returncode, 'stderr': pb.stderr.read().decode('utf-8', 'replace')[-1500:],
              'timed_out': False, 'stdout': ''}
    except subprocess.TimeoutExpired:
        try:
            os.killpg(pb.pid, 9)
        except ProcessLookupError:
            pass
        rb = {'argv': ['redo', 'x'], 'rc': -9, 'stderr': 'did not terminate', 'timed_out': True, 'stdout': ''}
    probs = ['redo x (under the harness jobserver): ' + x for x in jobdrive.classify(r, True)] + \
            ['redo x (builder): ' + x for x in jobdrive.classify(rb, True)]
    if toks - cheats != 0:
        probs.append('inherited jobserver: gave 0 tokens, %d-%d left' % (toks, cheats))
    res = {'sc': {'id': 'token_timer_%d' % k, 'j': 1, 'inherit': True}, 'dir': d, 'trace': trace, 'problems': probs, 'cmds': [r, rb],
           'pj': files, 'coincidences': state['coincidences']}
    with open(os.path.join(d, 'scenario.json'), 'w') as f:
        json.dump({'scenario': res['sc'], 'files': files, 'commands': [r, rb], 'problems': probs,
                   'coincidences': state['coincidences']}, f, indent=1)
    return res


def cycle_parallel_scenario(root, bindir):
    """a dependency cycle discovered by a redo-ifchange that has already started two parallel jobs: the jobs must be
    waited for and their tokens accounted for before the process leaves with the error (no abandonment)"""
    d = os.path.join(root, 'cycle_parallel')
    shutil.rmtree(d, ignore_errors=True)
    p = os.path.join(d, 'p')
    os.makedirs(p)
    files = {'x.do': 'redo-ifchange y\necho x\n', 'y.do': 'redo-ifchange p q x\necho y\n',
             'p.do': 'sleep 0.4\necho p\n', 'q.do': 'sleep 0.4\necho q\n'}
    for n, t in files.items():
        with open(os.path.join(p, n), 'w') as f:
            f.write(t)
    trace = os.path.join(d, 'trace.ndjson')
    open(trace, 'w').close()
    r = jobdrive.run_build(bindir, p, trace, ['redo', '-j3', 'x'], timeout=60, extra_env={'REDO_LOG': '0'})
    probs = ['redo -j3 x: ' + x for x in jobdrive.classify(r, False)]
    res = {'sc': {'id': 'cycle_parallel', 'j': 3, 'inherit': False}, 'dir': d, 'trace': trace, 'problems': probs, 'cmds': [r], 'pj': files}
    with open(os.path.join(d, 'scenario.json'), 'w') as f:
        json.dump({'scenario': res['sc'], 'files': files, 'commands': [r], 'problems': probs}, f, indent=1)
    return res


def classify_key(pb):
    if 'panic' in pb:
        import re
        m = re.search(r'src/(\w+)\.rs:(\d+)', pb)
        return 'panic:%s' % (m.group(0) if m else '?')
    if 'hang' in pb:
        return 'hang'
    if 'self-check' in pb:
        return 'selfcheck'
    if 'inherited jobserver' in pb:
        return 'inherited-count'
    if 'exited' in pb:
        return 'exit'
    return 'other'


def trace_key(detail):
    import re
    m = re.search(r'ev \|-> "(\w+)"', detail)
    return m.group(1) if m else '?'
