"""Render Python values as TLA+ expressions."""

def s(x):
    return '"' + x.replace('\\', '\\\\').replace('"', '\\"') + '"'

def seq(items):
    return '<<' + ', '.join(items) + '>>'

def sset(items):
    return '{' + ', '.join(items) + '}'

def fn(pairs):
    """pairs: list of (key_expr, value_expr)"""
    if not pairs:
        return '<<>>'
    return '(' + ' @@ '.join('%s :> %s' % (k, v) for k, v in pairs) + ')'

def rec(d):
    return '[' + ', '.join('%s |-> %s' % (k, v) for k, v in d.items()) + ']'

def val(x):
    """generic conversion: str, int, bool, list->seq, set->set, dict->function with string keys"""
    if isinstance(x, bool):
        return 'TRUE' if x else 'FALSE'
    if isinstance(x, int):
        return str(x)
    if isinstance(x, str):
        return s(x)
    if isinstance(x, (list, tuple)):
        return seq([val(i) for i in x])
    if isinstance(x, (set, frozenset)):
        return sset(sorted(val(i) for i in x))
    if isinstance(x, dict):
        return fn([(s(k), val(v)) for k, v in x.items()])
    raise TypeError(x)
