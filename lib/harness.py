"""Replay of specification behaviours (RedoSys histories) on the real redo binaries.

The specification is the only oracle: every expectation (exit status, scripts run, file
contents, database rows, edges, query output) comes out of TLC; this module materialises the
program, performs the user steps, runs the real commands and compares for equality.
"""
import hashlib
import json
import os
import shutil
import sqlite3
import subprocess
import time

RUNID_BASE = 1000000000
NOVAL = {'n': '', 'k': 'none', 'v': 0, 'd': []}


def render(val):
    """content term -> file bytes (as str)"""
    if isinstance(val.get('d'), dict):      # TLC prints 1-indexed functions as objects sometimes
        ds = [val['d'][k] for k in sorted(val['d'], key=int)]
    else:
        ds = val.get('d') or []
    return '%s@%s.%d(%s)' % (val['n'], val['k'], val['v'], ','.join(render(x) for x in ds))


def script_text(df, ver, rule, alias=None):
    """POSIX sh text of version `ver` of .do file `df`; rule = {target: [ops]}.  Names are project-relative;
    the script runs in the directory of `df`, so targets and dependencies are rewritten relative to it."""
    import posixpath
    here = posixpath.dirname(df)

    def rel(n):
        if alias and n in alias:
            return n                   # an alternative spelling is passed on as it is (flat programs only)
        return posixpath.relpath(n, here or '.')
    lines = ['# %s version %d (generated)' % (df, ver),
             'rd() { if [ -d "$1" ]; then tr -d "~" < "$1/data"; elif [ -e "$1" ]; then tr -d "~" < "$1"; else printf "@none.0()"; fi; }',
             'vpad() { if [ "${VT_PAD:-0}" -gt 0 ]; then head -c "$VT_PAD" /dev/zero | tr "\\0" "~"; fi; }',
             'vjit() { if [ -n "${VT_JITTER:-}" ]; then _j=$(od -An -N1 -tu1 /dev/urandom); sleep 0.0$((_j % 4))$((_j % 7)); fi; }',
             # kill point after every script step: the whole process group dies there when VT_KILL names it
             'vk() { echo "pt $1 $2" >> "$VT_LOG"; if [ "${VT_KILL:-}" = "$1:$2" ]; then kill -9 0; sleep 10; fi; }',
             # controlled scheduling: wait at a gate before every step (only when a Serializer is listening)
             'vg() { if [ -n "${VT_GATE:-}" ]; then _vgn=$((${_vgn:-0}+1)); '
             'echo "$$ script {\\"rq\\":$_vgn,\\"t\\":\\"$1\\",\\"i\\":$2}" > "$VT_GATE/req"; '
             'while [ ! -e "$VT_GATE/ack.$$.$_vgn" ]; do sleep 0.002; done; rm -f "$VT_GATE/ack.$$.$_vgn"; fi; }',
             'case "$1" in']
    for t, ops in rule.items():
        lines.append('  %s)' % shquote(rel(t)))
        lines.append('    echo "start %s" >> "$VT_LOG"; vjit' % t)
        for oi, o in enumerate(ops):
            op = o['op']
            args = ' '.join(shquote(rel(a)) for a in o['args'])
            if oi > 0:
                lines.append('    vk %s %d' % (shquote(t), oi))
            lines.append('    vg %s %d' % (shquote(t), oi))
            if op == 'ifchange':
                lines.append('    redo-ifchange %s; vjit' % args)
            elif op == 'redo':
                lines.append('    redo %s%s; vjit' % (args, ' || true' if o['ch'] == 'ignore' else ''))
            elif op == 'touch':
                a = o['args'][0]
                lines.append('    printf "%%s" %s > %s' % (shquote(render({'n': a, 'k': 'side', 'v': 0, 'd': []})), shquote(rel(a))))
            elif op == 'failif':
                lines.append('    if [ -e %s ]; then echo "exit %s %d" >> "$VT_LOG"; exit %d; fi' % (shquote(rel(o['args'][0])), t, o['rc'], o['rc']))
            elif op == 'ifchangeif':
                # a dependency list computed from data: ask for args[2:] unless args[0] was made from version 1 of args[1]
                rest = ' '.join(shquote(rel(a)) for a in o['args'][2:])
                lines.append('    case "$(rd %s)" in *"(%s@user.1()"*) ;; *) redo-ifchange %s; vjit ;; esac'
                             % (shquote(rel(o['args'][0])), o['args'][1], rest))
            elif op == 'mkdirp':
                lines.append('    mkdir -p "$(dirname "$1")"')
            elif op == 'ifcreate':
                lines.append('    redo-ifcreate %s' % args)
            elif op == 'watch':
                a = shquote(rel(o['args'][0]))
                lines.append('    if [ -e %s ]; then redo-ifchange %s; else redo-ifcreate %s; fi' % (a, a, a))
            elif op == 'always':
                lines.append('    redo-always')
            elif op == 'out':
                reads = ','.join('$(rd %s)' % shquote(rel(a)) for a in o['args'])
                lines.append('    OUT="%s@%s.%d(%s)"' % (t, df, o['rc'] if o['rc'] else ver, reads))
                ch = o['ch']
                if ch in ('stdout', 'both'):
                    lines.append('    printf "%s" "$OUT"; vpad')
                if ch in ('file', 'both'):
                    lines.append('    { printf "%s" "$OUT"; vpad; } > "$3"')
                if ch in ('direct', 'directold'):
                    lines.append('    { printf "%s" "$OUT"; vpad; } > "$1"')
                if ch == 'filedir':
                    lines.append('    mkdir "$3"')          # $3 created as a directory
                if ch == 'dirout':                          # $3 created as a directory that holds the output
                    lines.append('    mkdir "$3"; { printf "%s" "$OUT"; vpad; } > "$3/data"')
                if ch == 'dirdirect':                       # the idiom for directory targets: make $1 itself
                    lines.append('    rm -rf "$1"; mkdir "$1"; { printf "%s" "$OUT"; vpad; } > "$1/data"')
                if ch == 'filedel':
                    lines.append('    { printf "%s" "$OUT"; vpad; } > "$3"; rm -f "$3"')      # created, then deleted again
                if ch == 'directold':
                    # older than anything redo recorded, but never the same instant twice (redo recognises a direct
                    # write by a changed mtime; identical forged mtimes are outside the model: "distinct mtimes per edit")
                    lines.append('    touch -d "2001-02-03 04:05:06.$(date +%N)" "$1"')
            elif op == 'stamp':
                lines.append('    printf "%s" "$OUT" | redo-stamp')
            elif op == 'exit':
                lines.append('    echo "exit %s %d" >> "$VT_LOG"' % (t, o['rc']))
                if o['rc'] < 0:
                    lines.append('    kill -%d $$' % (-o['rc']))     # die by signal: status -signo
                else:
                    lines.append('    exit %d' % o['rc'])
            elif op == 'gate':
                lines.append('    echo "gate %s %s" >> "$VT_LOG"; read _x < "$VT_GATES/%s"' % (t, o['args'][0], o['args'][0]))
            elif op == 'err':
                lines.append('    echo %s >&2' % shquote(o['args'][0]))
            else:
                raise ValueError(op)
        lines.append('    echo "end %s" >> "$VT_LOG"' % t)
        lines.append('    ;;')
    lines.append('  *) echo "no rule for $1 in %s" >&2; exit 99 ;;' % df)
    lines.append('esac')
    return '\n'.join(lines) + '\n'


def shquote(x):
    return "'" + x.replace("'", "'\\''") + "'"


def stamp_of(path):
    """the string redo's File::read_stamp produces (state.rs: Stamp::from_metadata, with_link_target)"""
    import stat as S

    def fmt(st):
        if S.S_ISDIR(st.st_mode):
            return 'dir'
        secs, nanos = divmod(st.st_mtime_ns, 10 ** 9)
        mtime = float(secs) + float(nanos) / 1e9
        return '%.6f-%d-%d-%d-%d-%d' % (mtime, st.st_size, st.st_ino, st.st_mode, st.st_uid, st.st_gid)
    try:
        st = os.lstat(path)
    except FileNotFoundError:
        return '0'
    if S.S_ISLNK(st.st_mode):
        try:
            post = fmt(os.stat(path))
        except FileNotFoundError:
            post = '0'
        return fmt(st) + '+' + post
    return fmt(st)


class GateController:
    """Answers the gate requests of hooked redo processes (src/verif.rs).  policy(n, pid, point) returns
    'g' (go on), 'd' (the requester kills itself) or 'tree' (SIGKILL the whole session, no answer)."""

    def __init__(self, gdir, policy, points='commit,job_done,rec_rename,rec_after_fs,select', allow_crash_window=False,
                 allow_stamp_window=False, redo_only=False):
        import threading
        self.allow_crash_window = allow_crash_window
        self.allow_stamp_window = allow_stamp_window
        self.redo_only = redo_only
        self.after_fs = set()
        self.stampwin = False
        self.dir = gdir
        self.policy = policy
        self.points = points
        self.count = 0
        self.log = []
        self.pgid = None
        shutil.rmtree(gdir, ignore_errors=True)
        os.makedirs(gdir)
        os.mkfifo(os.path.join(gdir, 'req'))
        self.fd = os.open(os.path.join(gdir, 'req'), os.O_RDWR)
        self.stop = False
        self.th = threading.Thread(target=self.loop, daemon=True)
        self.th.start()

    def env(self):
        return {'REDO_VERIF_GATE': self.dir, 'REDO_VERIF_GATE_POINTS': self.points}

    def loop(self):
        import select
        buf = b''
        while not self.stop:
            r, _, _ = select.select([self.fd], [], [], 0.05)
            if not r:
                continue
            buf += os.read(self.fd, 65536)
            while b'\n' in buf:
                line, buf = buf.split(b'\n', 1)
                parts = line.decode('utf-8', 'replace').split(' ', 2)
                if len(parts) < 2:
                    continue
                pid, point = int(parts[0]), parts[1]
                try:
                    fields = json.loads(parts[2]) if len(parts) > 2 else {}
                except ValueError:
                    fields = {}
                comm = fields.get('comm', '')
                # classify the request: is a kill here inside one of the two known windows?
                #   crash window: after rename(tmp, target) until the recording transaction commits
                #   stamp window: after redo-stamp committed until the build of its target is recorded
                in_crash = point == 'rec_after_fs' or (point == 'commit' and pid in self.after_fs)
                in_stamp = self.stampwin and comm != 'redo-stamp'
                allowed = (self.allow_crash_window or not in_crash) and (self.allow_stamp_window or not in_stamp) \
                    and (not self.redo_only or comm in ('redo', 'redo-ifchange'))
                if allowed:
                    self.count += 1
                verdict = self.policy(self.count, pid, point) if allowed else 'g'
                self.log.append((self.count, pid, point, verdict, comm, in_crash, in_stamp))
                if point == 'rec_after_fs':
                    self.after_fs.add(pid)
                elif point == 'commit':
                    if pid in self.after_fs:
                        self.after_fs.discard(pid)
                    if comm == 'redo-stamp':
                        self.stampwin = True
                    elif self.stampwin and comm in ('redo', 'redo-ifchange') and fields.get('wrote', 0) > 0:
                        self.stampwin = False
                if verdict == 'tree':
                    # the request may arrive before the launcher has told us the process group
                    t0 = time.time()
                    while not self.pgid and time.time() - t0 < 10:
                        time.sleep(0.001)
                    if self.pgid:
                        try:
                            os.killpg(self.pgid, 9)
                        except ProcessLookupError:
                            pass
                    continue
                rq = fields.get('rq', 0)
                tmpf = os.path.join(self.dir, 'tmp.%d.%d' % (pid, rq))
                with open(tmpf, 'wb') as f:
                    f.write(b'd' if verdict == 'd' else b'g')
                os.rename(tmpf, os.path.join(self.dir, 'ack.%d.%d' % (pid, rq)))

    def close(self):
        self.stop = True
        self.th.join()
        os.close(self.fd)


class Serializer(GateController):
    """Controlled scheduling.  Every process of the build stops at every gate point (redo: before each commit, between
    reaping a job and recording it, around the rename, before select() and before a blocking lock wait; scripts: before
    every step, `vg`).  Whenever nothing has moved for `settle` seconds, one of the waiting processes - chosen by the
    seeded generator - is let go.  The real execution is then close to a serial interleaving of the atomic units of
    RedoSys, a different one for every seed; TLC enumerates all of them, so whatever happens must still agree with a
    specification behaviour."""

    def __init__(self, gdir, seed, settle=0.012):
        import random
        self.rnd = random.Random(seed)
        self.settle = settle
        self.released = 0
        # two policies, by seed: uniformly random choice among the waiting processes, or priorities (PCT, Burckhardt et
        # al.): a process inherits the priority of its parent, a new branch gets a random one, the waiting process with
        # the highest priority always runs, and at a few random steps the running branch drops below all others - this
        # starves one branch of the build for a long stretch, which uniform choice practically never does
        # (the step at which the priorities change is taken from the seed, so that successive seeds sweep all of them)
        self.pct = seed % 4 != 0
        self.prio = {}
        self.kids = set()
        self.low = 0.0
        self.change_at = {(seed * 11) % 61} if self.pct else set()
        if self.pct and seed % 4 == 3:
            self.change_at |= set(self.rnd.sample(range(1, 70), 2))
        super().__init__(gdir, lambda n, pid, pt: 'g', points='commit,job_done,rec_rename,rec_after_fs,select,lockwait')

    def env(self):
        e = super().env()
        e['VT_GATE'] = self.dir
        return e

    def priority(self, pid):
        if pid in self.prio:
            return self.prio[pid]
        # inherit from the nearest ancestor that has one
        q, chain = pid, []
        val = None
        for _ in range(12):
            try:
                with open('/proc/%d/stat' % q) as f:
                    q = int(f.read().rsplit(')', 1)[1].split()[1])
            except (OSError, ValueError, IndexError):
                break
            if q in self.prio:
                # the first process below q continues q's branch, its later siblings open branches of their own
                first = q not in self.kids
                self.kids.add(q)
                val = self.prio[q] if first else None
                break
            chain.append(q)
            if q <= 1:
                break
        if val is None:
            val = self.rnd.random()
        self.prio[pid] = val
        return val

    def loop(self):
        import select
        buf = b''
        pending = []
        last = time.time()
        while not self.stop:
            r, _, _ = select.select([self.fd], [], [], 0.002)
            if r:
                buf += os.read(self.fd, 65536)
                while b'\n' in buf:
                    line, buf = buf.split(b'\n', 1)
                    parts = line.decode('utf-8', 'replace').split(' ', 2)
                    if len(parts) < 2:
                        continue
                    try:
                        fields = json.loads(parts[2]) if len(parts) > 2 else {}
                    except ValueError:
                        fields = {}
                    pending.append((int(parts[0]), fields.get('rq', 0), parts[1]))
                    self.count += 1
                    last = time.time()
                continue
            if pending and time.time() - last >= self.settle:
                if self.pct:
                    for (q, _, _) in pending:
                        self.priority(q)
                    k = max(range(len(pending)), key=lambda i: self.prio[pending[i][0]])
                    if self.released in self.change_at:
                        self.low -= 1.0
                        self.prio[pending[k][0]] = self.low
                        k = max(range(len(pending)), key=lambda i: self.prio[pending[i][0]])
                    pid, rq, point = pending.pop(k)
                else:
                    pid, rq, point = pending.pop(self.rnd.randrange(len(pending)))
                self.log.append((self.released, pid, point, 'g', '', False, False))
                self.released += 1
                tmpf = os.path.join(self.dir, 'tmp.%d.%d' % (pid, rq))
                try:
                    with open(tmpf, 'wb') as f:
                        f.write(b'g')
                    os.rename(tmpf, os.path.join(self.dir, 'ack.%d.%d' % (pid, rq)))
                except OSError:
                    pass
                last = time.time()
        # let everything go that is still waiting
        for pid, rq, point in pending:
            try:
                with open(os.path.join(self.dir, 'ack.%d.%d' % (pid, rq)), 'wb') as f:
                    f.write(b'g')
            except OSError:
                pass


class Project:
    def __init__(self, prog, root, bindir, trace=None, log_mode=None, pad=0, watch=False, jitter=False):
        self.prog = prog
        self.root = root
        self.bindir = bindir
        self.trace = trace
        self.log_mode = log_mode        # None = default (redo-log viewer), '0' = REDO_LOG=0
        self.pad = pad                  # bytes of padding appended to every script output (size class)
        self.watch = watch              # poll the plain files while a command runs (no partial target)
        self.observed = {}              # name -> set of (text, padlen) seen by the reader thread
        self.jitter = jitter            # scripts sleep 0-36 ms at random points (schedule variety)
        self.dir = os.path.join(root, 'p')
        self.vtlog = os.path.join(root, 'vt.log')
        self.files = list(prog['plain']) + list(prog['rules'])
        shutil.rmtree(root, ignore_errors=True)
        os.makedirs(self.dir)
        # project-base discovery walks upwards: refuse to run under a foreign .redo
        d = os.path.dirname(self.dir)
        while d != '/':
            if os.path.exists(os.path.join(d, '.redo')):
                raise RuntimeError('ancestor %s contains .redo' % d)
            d = os.path.dirname(d)
        for dn in prog.get('mkdirs', []):
            os.makedirs(os.path.join(self.dir, dn), exist_ok=True)
        if any(len(c) > 4 and c[4] for c in prog.get('cmds', [])):
            # commands started in subdirectories: the project is the nearest ancestor that has a .redo directory (a first
            # command started below the top would otherwise make its own working directory the project)
            os.makedirs(os.path.join(self.dir, '.redo'), exist_ok=True)
        for n in prog['init']:
            if n in prog['rules']:
                self.write_do(n, 1)
            elif n in prog.get('links', {}):
                self.make_link(n, prog['links'][n][0])
            else:
                self.write_user(n, 1)
        self.cmdno = 0

    def path(self, n):
        return os.path.join(self.dir, n)

    def _write(self, n, text):
        time.sleep(0.002)
        tmp = self.path(n) + '.vt-new'
        os.makedirs(os.path.dirname(tmp), exist_ok=True)
        with open(tmp, 'w') as f:
            f.write(text)
        os.replace(tmp, self.path(n))

    def make_link(self, n, to):
        """(re)place n by a symbolic link to the project file `to` (relative, as ln -s would be used)"""
        import posixpath
        time.sleep(0.002)
        tmp = self.path(n) + '.vt-new'
        os.makedirs(os.path.dirname(tmp), exist_ok=True)
        try:
            os.unlink(tmp)
        except FileNotFoundError:
            pass
        os.symlink(posixpath.relpath(to, posixpath.dirname(n) or '.'), tmp)
        os.replace(tmp, self.path(n))

    def write_user(self, n, v):
        txt = render({'n': n, 'k': 'user', 'v': v, 'd': []})
        # a hand edit that keeps the size of the file it replaces (padding is stripped again by snapshot()): only the time
        # stamp tells it from what was there - within the same second as the build, as a rule
        try:
            if os.path.isfile(self.path(n)) and not os.path.islink(self.path(n)):
                old = os.path.getsize(self.path(n))
                if old > len(txt.encode()):
                    txt += '~' * (old - len(txt.encode()))
        except OSError:
            pass
        self._write(n, txt)

    def write_do(self, df, ver):
        self._write(df, script_text(df, ver, self.prog['rules'][df][ver - 1], alias=self.prog.get('alias')))

    def remove(self, n):
        try:
            os.unlink(self.path(n))
        except FileNotFoundError:
            pass
        except (IsADirectoryError, PermissionError):
            shutil.rmtree(self.path(n), ignore_errors=True)

    def env(self, extra=None):
        env = {k: v for k, v in os.environ.items()
               if not k.startswith('REDO') and k not in ('MAKEFLAGS', 'MFLAGS', 'MAKELEVEL')}
        env['PATH'] = self.bindir + ':' + env.get('PATH', '/usr/bin:/bin')
        env['VT_LOG'] = self.vtlog
        env['VT_GATES'] = os.path.join(self.root, 'gates')
        env['VT_PAD'] = str(self.pad)
        if self.jitter:
            env['VT_JITTER'] = '1'
        else:
            env.pop('VT_JITTER', None)
        if self.trace:
            env['REDO_VERIF_TRACE'] = self.trace
        if self.log_mode is not None:
            env['REDO_LOG'] = self.log_mode
        if extra:
            env.update(extra)
        return env

    def clone_for_dry_run(self, dst):
        """copy of the project whose files are hard links (same inode and mtime, hence the same stamps)
        and whose .redo directory is a deep copy"""
        shutil.rmtree(dst, ignore_errors=True)
        os.makedirs(os.path.join(dst, 'p'))
        for name in os.listdir(self.dir):
            src = os.path.join(self.dir, name)
            if name == '.redo':
                shutil.copytree(src, os.path.join(dst, 'p', '.redo'))
            elif os.path.islink(src) and not os.path.exists(src):      # (a dangling link: a stale $3)
                os.symlink(os.readlink(src), os.path.join(dst, 'p', name))
            elif os.path.isfile(src):
                os.link(src, os.path.join(dst, 'p', name))
            elif os.path.isdir(src):
                shutil.copytree(src, os.path.join(dst, 'p', name), copy_function=os.link)
        import copy
        other = copy.copy(self)
        other.root = dst
        other.dir = os.path.join(dst, 'p')
        other.vtlog = os.path.join(dst, 'vt.log')
        return other

    def run(self, argv, timeout=60, extra_env=None, gate=None, cwd=''):
        """run a top-level command; returns (rc, stdout, stderr, started-list, timed_out)"""
        self.cmdno += 1
        try:
            os.unlink(self.vtlog)
        except FileNotFoundError:
            pass
        if gate:
            extra_env = dict(extra_env or {}, **gate.env())
        p = subprocess.Popen(argv, cwd=os.path.join(self.dir, cwd) if cwd else self.dir, env=self.env(extra_env),
                             stdin=subprocess.DEVNULL, stdout=subprocess.PIPE, stderr=subprocess.PIPE, start_new_session=True)
        if gate:
            gate.pgid = p.pid
        stop = []
        th = None
        if self.watch:
            import threading
            self.observed = {n: set() for n in self.prog['plain']}

            def reader():
                while not stop:
                    for n in self.prog['plain']:
                        try:
                            with open(self.path(n), 'rb') as f:
                                b = f.read()
                            core = b.rstrip(b'~')
                            self.observed[n].add((core.decode('utf-8', 'replace'), len(b) - len(core)))
                        except FileNotFoundError:
                            self.observed[n].add((None, 0))
                        except OSError:
                            pass
                    time.sleep(0.0003)
            th = threading.Thread(target=reader, daemon=True)
            th.start()
        timed_out = False
        try:
            so, se = p.communicate(timeout=timeout)
        except subprocess.TimeoutExpired:
            timed_out = True
            try:
                os.killpg(p.pid, 9)
            except ProcessLookupError:
                pass
            so, se = p.communicate()
        self.wait_quiet(p.pid)
        if th:
            stop.append(1)
            th.join()
        started = []
        if os.path.exists(self.vtlog):
            for line in open(self.vtlog):
                parts = line.split()
                if parts and parts[0] == 'start':
                    started.append(parts[1])
        return p.returncode, so.decode('utf-8', 'replace'), se.decode('utf-8', 'replace'), started, timed_out

    def run_pair(self, argvs, cwds, extras, offset, timeout=60):
        """two top-level commands at (nearly) the same time: the second is started `offset` seconds after the first
        (offset < 0: the second one first).  Returns [(rc, stderr, started, timed_out)] in the order of argvs."""
        self.cmdno += 2
        logs = [self.vtlog + '.%d' % k for k in (1, 2)]
        for lf in logs:
            try:
                os.unlink(lf)
            except FileNotFoundError:
                pass
        order = [0, 1] if offset >= 0 else [1, 0]
        procs = [None, None]
        for n, k in enumerate(order):
            if n == 1:
                time.sleep(abs(offset))
            env = self.env(dict(extras[k] or {}, VT_LOG=logs[k]))
            procs[k] = subprocess.Popen(argvs[k], cwd=os.path.join(self.dir, cwds[k]) if cwds[k] else self.dir, env=env,
                                        stdin=subprocess.DEVNULL, stdout=subprocess.PIPE, stderr=subprocess.PIPE,
                                        start_new_session=True)
        out = [None, None]
        t_end = time.time() + timeout
        for k in (0, 1):
            to = False
            try:
                so, se = procs[k].communicate(timeout=max(0.1, t_end - time.time()))
            except subprocess.TimeoutExpired:
                to = True
                for q in procs:
                    try:
                        os.killpg(q.pid, 9)
                    except ProcessLookupError:
                        pass
                so, se = procs[k].communicate()
            out[k] = [procs[k].returncode, se.decode('utf-8', 'replace'), [], to, so.decode('utf-8', 'replace')]
        for k in (0, 1):
            self.wait_quiet(procs[k].pid)
            if os.path.exists(logs[k]):
                for line in open(logs[k]):
                    parts = line.split()
                    if parts and parts[0] == 'start':
                        out[k][2].append(parts[1])
        return out

    def wait_quiet(self, pgid, limit=20.0):
        """wait until no process of the command's session is left (orphaned scripts)"""
        t0 = time.time()
        while time.time() - t0 < limit:
            alive = False
            for d in os.listdir('/proc'):
                if not d.isdigit():
                    continue
                try:
                    with open('/proc/%s/stat' % d) as f:
                        fields = f.read().rsplit(')', 1)[1].split()
                    if int(fields[3]) == pgid and fields[0] != 'Z':      # session id
                        alive = True
                        break
                except (FileNotFoundError, ProcessLookupError, IndexError, PermissionError):
                    continue
            if not alive:
                return True
            time.sleep(0.01)
        return False

    # ---------------------------------------------------------------- observation
    def snapshot(self):
        files = {}
        dirs = set()
        for n in self.files:
            try:
                if os.path.isdir(self.path(n)):
                    dirs.add(n)
                with open(self.path(n) + '/data' if n in dirs else self.path(n)) as f:
                    txt = f.read()
                core = txt.rstrip('~')
                files[n] = core
                if self.pad and '@user.' not in core and n not in self.prog['rules'] and len(txt) - len(core) != self.pad:
                    files[n] = core + '<padding %d of %d>' % (len(txt) - len(core), self.pad)
            except FileNotFoundError:
                files[n] = None
        rows, edges = {}, set()
        dbp = os.path.join(self.dir, '.redo', 'db.sqlite3')
        if os.path.exists(dbp):
            con = sqlite3.connect('file:%s?mode=ro' % dbp, uri=True, timeout=30)
            try:
                idname = {}
                for r in con.execute('select rowid, name, is_generated, is_override, checked_runid, '
                                     'changed_runid, failed_runid, stamp, csum from Files'):
                    idname[r[0]] = r[1]
                    rows[r[1]] = {'id': r[0], 'gen': bool(r[2]), 'ovr': bool(r[3]), 'checked': r[4],
                                  'changed': r[5], 'failed': r[6], 'stamp': r[7], 'csum': r[8] or ''}
                for r in con.execute('select target, source, mode, delete_me from Deps'):
                    edges.add((idname.get(r[0]), idname.get(r[1]), r[2], bool(r[3])))
            finally:
                con.close()
        links = {n: os.path.normpath(os.path.join(os.path.dirname(n), os.readlink(self.path(n))))
                 for n in self.files if os.path.islink(self.path(n))}
        tmps = set(n for n in self.prog['plain'] if os.path.lexists(self.path(n) + '.redo.tmp'))
        tmpd = set(n for n in tmps if os.path.isdir(self.path(n) + '.redo.tmp'))
        return {'files': files, 'rows': rows, 'edges': edges, 'tmp': tmps, 'dirs': dirs, 'tmpd': tmpd, 'links': links}

    def compare(self, snap, exp):
        """exp: the spec's Snapshot record (JSON).  Returns list of difference strings."""
        diffs = []
        for n in self.files:
            want = exp['files'][n]
            have = snap['files'][n]
            if n in self.prog['rules']:
                if (want['k'] != 'none') != (have is not None):
                    diffs.append(('file', 'file %s: exists=%s, spec says %s' % (n, have is not None, want['k'] != 'none')))
                continue
            wtxt = None if want['k'] == 'none' else render(want)
            if wtxt != have:
                diffs.append(('file', 'file %s: have %r, spec says %r' % (n, have, wtxt)))
            elif (n in snap.get('dirs', ())) != (n in exp.get('dirs', ())):
                diffs.append(('file', '%s: is %s, spec says %s' % (n, 'a directory' if n in snap.get('dirs', ()) else 'a file',
                                                                  'directory' if n in exp.get('dirs', ()) else 'file')))
        wl = exp.get('links') or {}
        wl = dict(wl) if isinstance(wl, dict) else {}
        if wl != snap.get('links', {}):
            diffs.append(('file', 'symbolic links: have %s, spec says %s' % (snap.get('links', {}), wl)))
        known = set(self.files) | {'//ALWAYS'}
        for n in sorted(snap['rows']):
            if n not in known and os.path.normpath(n) in known:
                diffs.append(('rows', 'row %r: a second record for the file %s' % (n, os.path.normpath(n))))
        have_rows = {n: r for n, r in snap['rows'].items() if n in known}
        want_rows = exp['rows']
        # rowids: only their order matters (candidate .do files above the project consume ids)
        horder = [n for n in sorted(have_rows, key=lambda n: have_rows[n]['id']) if n != '//ALWAYS']
        worder = [n for n in sorted(want_rows, key=lambda n: want_rows[n]['id']) if n != '//ALWAYS']
        if horder != worder:
            diffs.append(('order', 'row order: have %s, spec says %s' % (horder, worder)))
        # the //ALWAYS row always exists in a real database
        for n in sorted(set(have_rows) | set(want_rows)):
            if n not in want_rows:
                if n == '//ALWAYS':
                    continue
                diffs.append(('rows', 'row %s: exists, spec has none' % n))
                continue
            if n not in have_rows:
                diffs.append(('rows', 'row %s: missing, spec has %s' % (n, want_rows[n])))
                continue
            h, wv = have_rows[n], want_rows[n]

            def rid(x, zero_ok=False):
                if x is None:
                    return -1
                if x == 0:
                    return 0
                return x - RUNID_BASE
            got = {'gen': h['gen'], 'ovr': h['ovr'], 'checked': rid(h['checked']),
                   'changed': rid(h['changed']), 'failed': rid(h['failed'])}
            if h['stamp'] is None:
                got['stamp'] = 'none'
            elif h['stamp'] == '0':
                got['stamp'] = 'missing'
            elif n != '//ALWAYS' and h['stamp'] == stamp_of(self.path(n)):
                got['stamp'] = 'cur'
            else:
                got['stamp'] = 'stale'
            wcs = '' if wv['csum']['k'] == 'none' else hashlib.sha1(render(wv['csum']).encode()).hexdigest()
            got['csum'] = h['csum']
            want = {'gen': wv['gen'], 'ovr': wv['ovr'], 'checked': wv['checked'], 'changed': wv['changed'],
                    'failed': wv['failed'], 'stamp': wv['stamp'], 'csum': wcs}
            for k in want:
                if want[k] != got[k]:
                    diffs.append(('row.' + k, 'row %s.%s: have %r, spec says %r' % (n, k, got[k], want[k])))
        he = set(e for e in snap['edges'] if e[0] in known and e[1] in known)
        we = set((e['t'], e['s'], e['mode'], e['del']) for e in exp['edges'])
        for e in sorted(he - we, key=str):
            diffs.append(('edge', 'edge %s: in database, not in spec' % (e,)))
        for e in sorted(we - he, key=str):
            diffs.append(('edge', 'edge %s: in spec, not in database' % (e,)))
        wt = set(exp['tmp'])
        if wt != snap['tmp']:
            diffs.append(('tmp', 'tmp files: have %s, spec says %s' % (sorted(snap['tmp']), sorted(wt))))
        elif set(exp.get('tmpd', ())) != snap.get('tmpd', set()):
            diffs.append(('tmp', 'tmp directories: have %s, spec says %s' % (sorted(snap.get('tmpd', ())), sorted(exp.get('tmpd', ())))))
        return diffs


def step_input(step):
    """the user-visible input part of a history step"""
    a = step['a']
    if a == 'cmd':
        return ('cmd', step['kind'], tuple(step['targs']), bool(step['keep']), step.get('j', 1)) + \
            ((('cwd', step['cwd']),) if step.get('cwd') else ()) + (('killed',) if step.get('killed') else ())
    if a == 'crash':
        return ('crash', step['kind'], tuple(step['targs']), bool(step['keep']), step.get('j', 1))
    if a == 'query':
        return ('query', step['kind']) + ((('cwd', step['cwd']),) if step.get('cwd') else ())
    if a == 'par':
        return ('par',) + tuple((c['kind'], tuple(c['targs']), bool(c['keep']), c.get('j', 1), c.get('cwd', ''))
                                for c in (step['c1'], step['c2']))
    return (a, step['n'], step.get('v'))


def history_input(h):
    return tuple(step_input(s) for s in h)


def replay_group(prog, alts, root, bindir, trace=None, log_mode=None, jflag=None, cmd_timeout=60, cats=None,
                 pad=0, watch=False, jitter=False, kill_seed=0, sched_seed=None):
    """Execute one user-level history.  `alts` are all specification behaviours with that
    input (they differ where the implementation is legitimately nondeterministic, e.g. the
    poll order of wait_for); the real execution must agree, step by step, with at least one.
    Returns (ok, report)."""
    pj = Project(prog, root, bindir, trace=trace, log_mode=log_mode, pad=pad, watch=watch, jitter=jitter)
    report = []
    live = list(alts)
    direct = any(o['op'] == 'out' and o['ch'] in ('direct', 'directold', 'dirdirect') for vers in prog['rules'].values()
                 for ver in vers for ops in ver.values() for o in ops)

    # (with a failing rule and no --keep-going the set of targets started depends on the command-line order)
    has_exit = any(o['op'] in ('exit', 'failif') for vers in prog['rules'].values() for ver in vers for ops in ver.values() for o in ops)

    def want_cat(cat):
        return cats is None or cat in cats or cat.split('.')[0] in cats

    for i, step in enumerate(alts[0]):
        a = step['a']
        entry = {'input': list(step_input(step))}
        if a == 'write':
            pj.write_user(step['n'], step['v'])
        elif a == 'rm':
            pj.remove(step['n'])
        elif a == 'tmp':
            stale = pj.path(step['n']) + '.redo.tmp'
            if os.path.isdir(stale) and not os.path.islink(stale):
                shutil.rmtree(stale)
            elif os.path.lexists(stale):
                os.unlink(stale)
            if step.get('v') == 'l':
                os.symlink('data-that-was-never-written', pj.path(step['n']) + '.redo.tmp')
            else:
                with open(pj.path(step['n']) + '.redo.tmp', 'w') as f:
                    f.write('stale partial output of an earlier, killed build\n')
        elif a in ('doedit', 'doadd'):
            pj.write_do(step['n'], step['v'])
        elif a == 'relink':
            pj.make_link(step['n'], step['v'])
        elif a == 'crash' or (a == 'cmd' and step.get('killed')):
            # a kill during this command: of the whole tree ('crash') or of one redo process ('killed').
            # The kill lands at the K-th gate request (commit / rename points of the hooked redo); K is
            # chosen by the caller's seed among the requests a dry run of the same command makes.
            argv = ['redo-ifchange' if step['kind'] == 'ifchange' else 'redo']
            if step.get('j', 1) > 1 and step['kind'] == 'redo':
                argv.append('-j%d' % step['j'])
            argv += list(step['targs'])
            dry = pj.clone_for_dry_run(os.path.join(root, 'dry'))
            has_stamp = any(o['op'] == 'stamp' for vers in prog['rules'].values() for ver in vers
                            for ops in ver.values() for o in ops)
            gkw = dict(allow_crash_window=bool(prog.get('crash_window')), allow_stamp_window=bool(prog.get('stamp_window')),
                       redo_only=(a == 'cmd'),
                       # a kill of a redo process that waits (in select) for a script which will still run
                       # redo-stamp leads into the stamp window later: only with that window allowed
                       points='commit,job_done,rec_rename,rec_after_fs' + (',select' if (prog.get('stamp_window') or not has_stamp) else ''))
            g0 = GateController(os.path.join(root, 'gates0'), lambda n, pid, pt: 'g', **gkw)
            dry.run(argv, timeout=cmd_timeout, gate=g0)
            g0.close()
            total = max(1, g0.count)
            # kills of the whole tree can also land between two steps of a running script (`vk` points); not inside
            # the redo-stamp window unless that window is allowed
            pts = []
            if a == 'crash' and os.path.exists(dry.vtlog) and (prog.get('stamp_window') or not has_stamp):
                pts = [ln.split()[1:3] for ln in open(dry.vtlog) if ln.startswith('pt ')]
            shutil.rmtree(os.path.join(root, 'dry'), ignore_errors=True)
            k = 1 + (kill_seed % (total + len(pts)))
            kill_env = None
            if k > total:
                kill_env = {'VT_KILL': '%s:%s' % tuple(pts[k - total - 1])}
            mode = 'tree' if a == 'crash' else 'd'
            fired = []

            def pol(n, pid, pt):
                if n == k and not fired:
                    fired.append(1)
                    return mode
                return 'g'
            g1 = GateController(os.path.join(root, 'gates1'), pol, **gkw)
            pj.trace = os.path.join(root, 'kill_trace.ndjson')
            rc, so, se, started, to = pj.run(argv, timeout=cmd_timeout, gate=g1, extra_env=kill_env)
            pj.trace = None
            g1.close()
            snap = pj.snapshot()
            hit = [x for x in g1.log if x[3] != 'g']
            if kill_env and rc == -9:
                hit = [(k, 0, 'script ' + kill_env['VT_KILL'], 'tree', 'sh', False, False)]
            entry.update({'argv': argv, 'rc': rc, 'started': started, 'kill_at': k, 'gates_in_dry_run': total,
                          'kill_point': hit[0][2] if hit else None, 'stderr': se[-1500:], 'alternatives': len(live),
                          'gate_log': [list(x) for x in g1.log], 'dry_gate_log': [list(x) for x in g0.log]})
            best = None
            nxt = []
            for h in live:
                st = h[i]
                diffs = []
                if to:
                    diffs.append('command did not terminate within %ds' % cmd_timeout)
                if a == 'cmd':
                    if rc != st['rc'] and want_cat('rc'):
                        diffs.append('exit status: have %s, spec says %s' % (rc, st['rc']))
                diffs += [txt for (cat, txt) in pj.compare(snap, st['snap']) if want_cat(cat)]
                if not diffs:
                    nxt.append(h)
                elif best is None or len(diffs) < len(best):
                    best = diffs
            if not hit:
                entry['note'] = 'no kill happened (fewer gate requests than in the dry run)'
            if not nxt:
                entry['diffs'] = best
                report.append(entry)
                return False, report
            live = nxt
        elif a == 'cmd':
            argv = ['redo-ifchange' if step['kind'] == 'ifchange' else 'redo']
            if step['keep'] and step['kind'] == 'redo':
                argv.append('-k')
            if step.get('j', 1) > 1 and step['kind'] == 'redo':
                argv.append('-j%d' % step['j'])
            argv += list(step['targs'])
            extra = {'REDO_KEEP_GOING': '1'} if step['keep'] else {}
            if jitter and step.get('j', 1) > 1 and (kill_seed + i) % 2 == 1 and not has_exit:
                extra['REDO_SHUFFLE'] = '1'         # --shuffle: the order of the command-line targets is a schedule too
            pre = pj.snapshot()['files'] if watch else None
            ser = Serializer(os.path.join(root, 'sgate%d' % i), sched_seed * 1000 + i) if sched_seed is not None else None
            try:
                rc, so, se, started, to = pj.run(argv, timeout=cmd_timeout, extra_env=extra, gate=ser, cwd=step.get('cwd', ''))
            finally:
                if ser:
                    ser.close()
                    entry['gates_scheduled'] = ser.released
            snap = pj.snapshot()
            common_diffs = []
            if watch and not direct:
                # a concurrent reader may only ever see the old or the new complete file
                for n, seen in pj.observed.items():
                    okset = {pre[n], snap['files'][n]}
                    for (txt, padlen) in seen:
                        full = txt is None or '@user.' in txt or padlen == pad
                        if txt not in okset or not full:
                            common_diffs.append('reader saw %s = %r (+%d pad) during the command; old %r new %r'
                                                % (n, txt, padlen, pre[n], snap['files'][n]))
                            break
            if to:
                common_diffs.append('command did not terminate within %ds' % cmd_timeout)
            if 'panicked' in se:
                common_diffs.append('panic: ' + se[se.find('panicked'):][:300])
            best = None
            nxt = []
            for h in live:
                st = h[i]
                diffs = list(common_diffs)
                if rc != st['rc'] and want_cat('rc'):
                    diffs.append('exit status: have %s, spec says %s' % (rc, st['rc']))
                if sorted(started) != sorted(st['ran']) and want_cat('ran'):
                    diffs.append('scripts run: have %s, spec says %s' % (started, list(st['ran'])))
                if want_cat('codes') and cats is not None:
                    import re as _re
                    seen_codes = sorted(set(int(x) for x in _re.findall(r'\(exit (-?\d+)\)', se)))
                    if seen_codes != sorted(st.get('codes', [])):
                        diffs.append('job exit statuses: have %s, spec says %s' % (seen_codes, sorted(st.get('codes', []))))
                diffs += [txt for (cat, txt) in pj.compare(snap, st['snap']) if want_cat(cat)]
                if not diffs:
                    nxt.append(h)
                elif best is None or len(diffs) < len(best):
                    best = diffs
            entry.update({'argv': argv, 'rc': rc, 'started': started, 'stderr': se[-2000:],
                          'alternatives': len(live)})
            if not nxt:
                entry['diffs'] = best
                report.append(entry)
                return False, report
            live = nxt
        elif a == 'par':
            # two commands started together: whatever the real interleaving was, the pair of outcomes and the state left
            # behind must be those of one specification behaviour
            argvs, cwds, extras = [], [], []
            for c in (step['c1'], step['c2']):
                if c['kind'] in ('ood', 'targets', 'sources'):
                    argvs.append(['redo-' + c['kind']])
                    cwds.append(c.get('cwd', ''))
                    extras.append({})
                    continue
                argv = ['redo-ifchange' if c['kind'] == 'ifchange' else 'redo']
                if c['keep'] and c['kind'] == 'redo':
                    argv.append('-k')
                if c.get('j', 1) > 1 and c['kind'] == 'redo':
                    argv.append('-j%d' % c['j'])
                argvs.append(argv + list(c['targs']))
                cwds.append(c.get('cwd', ''))
                extras.append({'REDO_KEEP_GOING': '1'} if c['keep'] else {})
            offs = [0.0, 0.004, -0.004, 0.02, -0.02, 0.06, -0.06, 0.15, -0.15, 0.001, -0.001]
            offset = offs[(kill_seed + i) % len(offs)]
            # under controlled scheduling the processes of both commands stop at every gate (their start-up commits
            # included: which of the two gets the lower run id is the scheduler's choice too)
            ser = Serializer(os.path.join(root, 'sgate%d' % i), sched_seed * 1000 + i) if sched_seed is not None else None
            if ser:
                extras = [dict(e, **ser.env()) for e in extras]
                offset = 0.0
            try:
                res = pj.run_pair(argvs, cwds, extras, offset, timeout=cmd_timeout)
            finally:
                if ser:
                    ser.close()
                    entry['gates_scheduled'] = ser.released
            snap = pj.snapshot()
            common_diffs = []
            for k in (0, 1):
                if res[k][3]:
                    common_diffs.append('command %d did not terminate within %ds' % (k + 1, cmd_timeout))
                if 'panicked' in res[k][1]:
                    common_diffs.append('panic: ' + res[k][1][res[k][1].find('panicked'):][:300])
            best = None
            nxt = []
            for h in live:
                st = h[i]
                diffs = list(common_diffs)
                for k, key in ((0, 'c1'), (1, 'c2')):
                    if res[k][0] != st[key]['rc'] and want_cat('rc'):
                        diffs.append('exit status of command %d: have %s, spec says %s' % (k + 1, res[k][0], st[key]['rc']))
                    if sorted(res[k][2]) != sorted(st[key]['ran']) and want_cat('ran'):
                        diffs.append('scripts run by command %d: have %s, spec says %s' % (k + 1, res[k][2], list(st[key]['ran'])))
                    if step[key]['kind'] in ('ood', 'targets', 'sources'):
                        got = sorted(os.path.normpath(os.path.join(step[key].get('cwd', ''), x)) for x in res[k][4].split('\n') if x)
                        if got != sorted(st[key].get('out') or []):
                            diffs.append('output of redo-%s (command %d): have %s, spec says %s'
                                         % (step[key]['kind'], k + 1, got, sorted(st[key].get('out') or [])))
                diffs += [txt for (cat, txt) in pj.compare(snap, st['snap']) if want_cat(cat)]
                if not diffs:
                    nxt.append(h)
                elif best is None or len(diffs) < len(best):
                    best = diffs
            entry.update({'argv': argvs, 'offset_s': offset, 'rc': [res[0][0], res[1][0]], 'started': [res[0][2], res[1][2]],
                          'stderr': [res[0][1][-1500:], res[1][1][-1500:]], 'alternatives': len(live)})
            if not nxt:
                entry['diffs'] = best
                report.append(entry)
                return False, report
            live = nxt
        elif a == 'query':
            argv = ['redo-' + step['kind']]
            rc, so, se, started, to = pj.run(argv, timeout=cmd_timeout, cwd=step.get('cwd', ''))
            # (the queries print names relative to the working directory)
            got = sorted(os.path.normpath(os.path.join(step.get('cwd', ''), x)) for x in so.split('\n') if x)
            qsnap = pj.snapshot()
            best = None
            nxt = []
            for h in live:
                diffs = []
                if rc != 0:
                    diffs.append('query exit status %s: %s' % (rc, se[-300:]))
                want = sorted(h[i]['out'])
                if got != want:
                    diffs.append('%s output: have %s, spec says %s' % (argv[0], got, want))
                if 'snap' in h[i]:      # the query must leave files and database as they were
                    diffs += [txt for (cat, txt) in pj.compare(qsnap, h[i]['snap']) if want_cat(cat)]
                if not diffs:
                    nxt.append(h)
                elif best is None:
                    best = diffs
            entry.update({'argv': argv, 'rc': rc, 'out': got, 'alternatives': len(live)})
            if not nxt:
                entry['diffs'] = best
                report.append(entry)
                return False, report
            live = nxt
        report.append(entry)
    return True, report
