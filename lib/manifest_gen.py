"""Regenerate MANIFEST.json from the registry below (keeps it valid at all times)."""
import json
import os
import subprocess

VERIF = os.path.dirname(os.path.dirname(os.path.abspath(__file__)))

LEVEL_SYS = ('TLC checks the formalised property exhaustively on the RedoSys specification for a family of '
             'programs and every user-level history up to the stated bound; every exported behaviour that is '
             'sampled (quick) or enumerated (thorough) is replayed on the real binaries built from /repo and '
             'the observable state after every command is compared with the specification state.')
NOTE_SYS = ('trusted: TLC, the hand-written specification (bound to the code by the replays), the kernel/SQLite; '
            'bounded histories and small programs; directories as targets, symbolic-link sources, alternative spellings and '
            'two commands in flight (pair programs) are modelled, links produced by scripts and directories as dependencies are not')

CHECKS = {
    'C01': dict(technique='TLA+ model checking (TLC) of RedoSys invariant Fresh + replay of TLC-generated histories on the real redo',
                design='DESIGN.md section 4 C01'),
    'C02': dict(technique='TLA+ model checking (TLC): NoOverBuild/NoUnderBuild/NoDupRun against the MustRun reference + behaviour replay',
                design='DESIGN.md section 4 C02'),
    'C03': dict(technique='TLA+ model checking (TLC) on checksummed-target programs + behaviour replay comparing checksums and rebuild sets',
                design='DESIGN.md section 4 C03'),
    'C05': dict(technique='TLA+ model checking (TLC): FailPropagates/NoCleanOverFailed + behaviour replay incl. nondeterministic alternatives; '
                          'two invocations at once in RedoSys (a failure learnt while a target is locked by the other command), real pairs '
                          'of commands matched against the specification behaviours',
                design='DESIGN.md section 4 C05'),
    'C11': dict(technique='TLA+ model checking (TLC): action property NoTrample + behaviour replay comparing file bytes and roles',
                design='DESIGN.md section 4 C11'),
    'C04': dict(technique='TLA+ model checking (TLC): OnlyCompleteOutput/NoTmpLeft action properties over an output-channel table '
                          '(stdout, $3, both, none, direct writes, $3 or $1 made a directory, failing renames) + behaviour replay with '
                          'size classes and a concurrent reader',
                design='DESIGN.md section 4 C04'),
    'C07': dict(technique='TLA+ model checking (TLC) of every interleaving at -j2/-j3, schedule-independence of outcomes + real runs under '
                          'random script delays and under controlled scheduling (gate serializer, uniform and PCT priorities) matched '
                          'against specification behaviours + trace validation of the serialized runs against TraceLocks',
                design='DESIGN.md section 4 C07'),
    'C12': dict(technique='TLA+ model checking (TLC): NotHung (ENABLED), CycleReported on cyclic programs + behaviour replay under a wall-clock bound',
                design='DESIGN.md section 4 C12'),
    'C17': dict(technique='TLA+ model checking (TLC): query bounds (OodLower/OodUpper/partition) against the MustRun reference + behaviour replay with queries at every position',
                design='DESIGN.md section 4 C17'),
    'C14': dict(technique='TLA+ model checking (TLC) on ifcreate/always programs + behaviour replay',
                design='DESIGN.md section 4 C14'),
    'C10': dict(technique='TLA+ model checking (TLC) with CrashTree/CrashOne enabled in every state: Fresh/RecoversOk after recovery '
                          '+ gate-driven SIGKILL of the real process tree at every commit/rename point and between script steps, '
                          'post-kill state matched against a specification state + SIGKILL before every state-changing system call '
                          '(strace injection sweep) with the TLC-exported uncrashed history as oracle',
                design='DESIGN.md section 4 C10'),
    'C08': dict(engine='RedoJobs', design='DESIGN.md section 4 C08',
                technique='TLA+ model checking (TLC) of the token protocol RedoJobs (Conservation, MaxWork, ExitBalanced, '
                          'QuiescentExact) + trace validation: token events of real parallel builds checked by TLC against '
                          'TraceJobs, pipes counted by the harness acting as parent jobserver + RedoSetup: the start-up decision '
                          '(MAKEFLAGS / REDO_CHEATFDS / -j) evaluated by TLC on 166 665 configurations and compared with a real redo '
                          'given descriptors 60-63',
                level='TLC checks the token invariants on every interleaving of small process trees (own and inherited '
                      'jobserver, an outside world taking tokens, cheating, failing jobs, lock waits). The hooked redo then '
                      'runs real parallel builds (-j1..8, harness-owned jobserver, log capture on/off, failures); every token '
                      'event carries the implementation\'s counters, TLC replays the trace through the same token operators, '
                      'rejects any step the protocol does not allow and evaluates conservation after every event.',
                note='trusted: TLC, hook placement (giving events before, taking events after the system call), O_APPEND line '
                     'atomicity; model bounded to small trees, real runs to random DAGs of 4-40 targets'),
    'C09': dict(engine='RedoJobs', design='DESIGN.md section 4 C09',
                technique='TLA+ model checking (TLC) of the scheduler at poll-cycle granularity (NoPanic, NotHung, '
                          'AllSucceedExit0 over every ready set per select()) + real builds with gate-delayed select() wake-ups, '
                          'duplicate targets and contending invocations, traces validated against TraceJobs + RedoExec: the first-line '
                          'rule of .do files as an input dimension of job start',
                level='TLC explores every interleaving and every coincidence of child exits, token arrivals and timer expiries '
                      'per poll cycle on small process trees, with every assert!() of the code as a guard; real builds are then '
                      'driven into the same corners (select() wake-ups delayed through a gate so that events coincide, two '
                      'invocations on the same targets, duplicate targets) and any panic, hang (wall-clock bound with '
                      'process/lock snapshot) or wrong exit status is a violation; their token traces are validated by TLC.',
                note='trusted: TLC, the reading of run()/block_on in RedoJobs (bound by the trace validation of the token '
                     'layer; the control-flow layer is bound only through exit status / termination of the real runs)'),
    'C06': dict(engine='RedoSys', design='DESIGN.md section 4 C06',
                technique='TLA+ model checking (TLC) of ScriptMutex/HoldThroughRecord/ScriptUnderLock on RedoSys at -j2/-j3 and with two '
                          'commands in flight (every interleaving of two invocations; real pairs of commands, half of them under controlled '
                          'scheduling, matched against the specification behaviours) + trace validation: lock, script and commit events '
                          'of several concurrent invocations checked by TLC against TraceLocks',
                level='TLC checks on every interleaving of parallel process trees that two scripts of one target never coexist and '
                      'that the starter holds the lock from the decision until the result is committed. Then 2-6 top-level commands '
                      'are started together on random DAGs; every lock grant/release, decision, script begin/end, result record and '
                      'commit of every process is replayed by TLC through TraceLocks, which rejects a decision outside the lock, an '
                      'overlap of two scripts of one target, and a lock release or process exit before the result is committed.',
                note='trusted: TLC, hook placement rule and script markers (an overlap in the trace is an overlap in reality), fcntl '
                     'semantics; SIGKILL of a redo process is C10\'s subject'),
    'C16': dict(engine='RedoDb', design='DESIGN.md section 4 C16',
                technique='TLA+ model checking (TLC) of RedoDb (SQLite WAL rules + transaction scripts of the commands) + trace '
                          'validation: transaction events of concurrent real commands replayed by TLC against TraceDb, final database '
                          'compared with the committed state + RedoSys with two commands (or a build and a query) in flight: exit '
                          'statuses, query output and every row and edge left behind must be those of one specification behaviour',
                level='TLC checks NoSpuriousFailure, NoLostState, RunIdsDistinct and NotStuck on every interleaving of the database '
                      'steps of 2-4 concurrent builds and queries, with and without an existing database (the pinned start-up is kept '
                      'as a mode and must produce its counterexamples). 3-10 real commands are then started together, half of the time '
                      'in a project without .redo: any database/lock error or unexplained non-zero exit is a violation, every '
                      'transaction event is replayed by TLC (one writer at a time, writes only under the write lock, run ids '
                      'distinct) and the final database must contain exactly the committed rows and edges.',
                note='trusted: TLC, the SQLite rules stated in RedoDb (an assumption exercised only on the paths redo uses), hook '
                     'placement'),
    'C13': dict(engine='RedoPaths', design='DESIGN.md section 4 C13',
                technique='TLA+ (TLC) evaluation of the candidate/argument rule RedoPaths.Candidates on every target of the family with '
                          'its order laws + conformance: possible_do_files in process, redo-whichdo and real builds echoing cwd/$1/$2/$3, '
                          'and add/remove-candidate histories, all compared with the TLC table + RedoExec: the interpreter (first line) '
                          'rule evaluated by TLC on every line of up to 3-4 tokens, real builds compared with the predicted command line',
                level='TLC enumerates every target of the family, checks the order and argument laws on the specification and exports '
                      'the expected candidate list with script directory, $1 and $2; the real enumeration is compared in process for '
                      'every target, and for a sample covering every structural class the binaries are run on a materialised project '
                      '(redo-whichdo, a real build, then adding and removing a higher-priority script).',
                note='trusted: TLC; bounded name and depth alphabets; spaces/unicode only as far as they behave like the letter a'),
    'C15': dict(engine='RedoPaths', design='DESIGN.md section 4 C15',
                technique='TLA+ (TLC): byte-level transcription of normpath checked against an independent denotation (idempotent, '
                          'meaning-preserving, canonical) and relpath re-joining for every string/pair up to a bound + conformance of the '
                          'real functions on every enumerated input + exhaustive spelling pairs on real command lines',
                level='TLC checks the laws of lexical cleaning and of relative-path composition on the specification for every string '
                      'over a 4-symbol alphabet up to length 7 (9 thorough) and every pair of absolute strings up to length 4 (5); the '
                      'real normpath/relpath must return exactly the TLC-computed value on every one of these inputs; every pair of '
                      'spellings of one file from three working directories is run through redo, redo -j2 and redo-ifchange.',
                note='trusted: TLC; the symlink-free tree of the reference (symlinked directories only through the real command lines); '
                     'project-base discovery pinned by a .redo directory in the scratch project'),
    'C18': dict(engine='RedoLog', design='DESIGN.md section 4 C18',
                technique='TLA+ model checking (TLC) of RedoLog (log files, writers, recursive lock-aware follower) and RedoMeta (record '
                          'format/parse round trip) + conformance: Meta::parse on every TLC-enumerated line, raw live and replay streams '
                          'of real builds validated by TLC against TraceLog',
                level='TLC checks on every interleaving of script writes, record appends, lock releases and follower reads that every '
                      'line is shown once, in order and under its target (live and replay), and that records survive format/parse for '
                      'every text over a small alphabet; the real parser is compared on every enumerated line; the raw output of real '
                      'parallel builds and of redo-log -r is tokenised and validated line by line by TLC.',
                note='trusted: TLC; the attribution rule (last do/resumed record) as the reading a user applies to the stream; '
                     'self-identifying script lines; forged valid records are out of scope'),
}

PENDING = {
}


def main():
    repo_commits = subprocess.run(['git', '-C', '/repo', 'log', '--format=%h %s', '--grep=verif-hooks'],
                                  stdout=subprocess.PIPE, text=True).stdout.strip().splitlines()
    m = {
        'version': 1,
        'setup_cmd': 'bin/check setup',
        'hooks': {
            'guard': 'verif-hooks (cargo feature)',
            'enable': 'cargo build --offline --features verif-hooks --bin redo (target dir /verif/target/redo)',
            'baseline_off_cmd': 'cd /repo && cargo test --workspace --no-fail-fast --offline',
            'source_commits': [c.split()[0] for c in repo_commits],
            'add_only': True,
        },
        'engines': [
            {'name': 'RedoJobs', 'path': 'spec/RedoJobs.tla',
             'serves_properties': sorted(k for k, c in CHECKS.items() if c.get('engine') == 'RedoJobs'),
             'kind_free_text': 'TLA+ specification of the jobserver token protocol and the scheduler loop at poll-cycle '
                               'granularity; TLC; TraceJobs.tla validates recorded token events of the real binaries'},
            {'name': 'RedoLog', 'path': 'spec/RedoLog.tla',
             'serves_properties': sorted(k for k, c in CHECKS.items() if c.get('engine') == 'RedoLog'),
             'kind_free_text': 'TLA+ specification of per-target log files and the recursive log follower (with RedoMeta for the '
                               'record grammar); TLC; TraceLog.tla validates tokenised real output streams'},
            {'name': 'RedoPaths', 'path': 'spec/RedoPaths.tla',
             'serves_properties': sorted(k for k, c in CHECKS.items() if c.get('engine') == 'RedoPaths'),
             'kind_free_text': 'TLA+ transcription of normpath / relpath / .do candidate enumeration next to an independent '
                               'denotation; TLC evaluates it on every input up to a bound and exports tables that lib/funcheck.py '
                               'compares with the real functions (vfun helper) and binaries'},
            {'name': 'RedoDb', 'path': 'spec/RedoDb.tla',
             'serves_properties': sorted(k for k, c in CHECKS.items() if c.get('engine') == 'RedoDb'),
             'kind_free_text': 'TLA+ specification of the SQLite usage of the commands (deferred/immediate transactions, '
                               'start-up, creation race); TLC; TraceDb.tla validates recorded transaction events'},
            {'name': 'RedoSys', 'path': 'spec/RedoSys.tla',
             'serves_properties': sorted(k for k, c in CHECKS.items() if c.get('engine', 'RedoSys') == 'RedoSys'),
             'kind_free_text': 'TLA+ specification of the whole build system (fs, db, locks, process tree, one or two commands in '
                               'flight); TLC; behaviours exported as JSON and replayed by lib/harness.py'},
            {'name': 'RedoExec', 'path': 'spec/RedoExec.tla', 'serves_properties': ['C09', 'C13'],
             'kind_free_text': 'TLA+ transcription of how a .do file is executed (first-line / interpreter rule) with its laws; '
                               'MC_Exec enumerates first lines, lib/funcheck.py compares real builds with the predicted command line'},
            {'name': 'RedoSetup', 'path': 'spec/RedoSetup.tla', 'serves_properties': ['C08'],
             'kind_free_text': 'TLA+ transcription of parse_makeflags and JobServer::setup as a decision table with its laws; '
                               'MC_Setup enumerates configurations, lib/funcheck.py compares a real redo (JsSetup event, exit status)'},
        ],
        'checks': [],
        'not_applicable': [{'property_id': k, 'reason': v} for k, v in sorted(PENDING.items()) if k not in CHECKS],
        'notes': 'exit codes: 0 held, 1 VIOLATION line, 2 tool error. VERIF_SEED seeds sampling.',
    }
    for pid, c in sorted(CHECKS.items()):
        m['checks'].append({
            'property_id': pid,
            'quick_cmd': 'bin/check %s quick' % pid,
            'thorough_cmd': 'bin/check %s thorough' % pid,
            'evidence_file': 'evidence/%s.json' % pid,
            'replay_cmd_template': 'bin/replay {path}',
            'engine': c.get('engine', 'RedoSys'),
            'level_claimed': {'category': c.get('category', 'model_checking'), 'text': c.get('level', LEVEL_SYS),
                              'design_ref': c['design']},
            'level_note': c.get('note', NOTE_SYS),
            'technique': c['technique'],
        })
    with open(os.path.join(VERIF, 'MANIFEST.json'), 'w') as f:
        json.dump(m, f, indent=1)
        f.write('\n')


if __name__ == '__main__':
    main()
