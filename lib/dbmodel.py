"""RedoDb model checking (C16)."""
import os

import common
from tla import s, fn

INV = ['NoSpuriousFailure', 'NoLostState', 'RunIdsDistinct', 'NotStuck']


def configs(tier):
    out = []
    mixes = [('bb', 2), ('bq', 2), ('bbq', 2), ('bbb', 1), ('bqq', 2)]
    if tier == 'thorough':
        mixes += [('bbbq', 1), ('bbqq', 2), ('bbbb', 1)]
    for mix, nwork in mixes:
        for ex in (True, False):
            out.append({'name': 'db_%s_%s' % (mix, 'ex' if ex else 'new'), 'mix': mix, 'exists': ex, 'nwork': nwork, 'mode': 'fixed'})
    return out


def write(cfg, d):
    name = 'MCD_' + cfg['name'] + '_' + cfg['mode'] + ('' if cfg.get('retrywal', True) else '_noretry')
    procs = ['p%d' % i for i in range(len(cfg['mix']))]
    kind = fn([(s(p), s('build' if c == 'b' else 'query')) for p, c in zip(procs, cfg['mix'])])
    open(os.path.join(d, name + '.tla'), 'w').write(
        '---- MODULE %s ----\nEXTENDS RedoDb\nc_Kind == %s\n====\n' % (name, kind))
    open(os.path.join(d, name + '.cfg'), 'w').write(
        'CONSTANT Procs = {%s}\nCONSTANT Kind <- c_Kind\nCONSTANT Mode = "%s"\nCONSTANT Exists0 = %s\n'
        'CONSTANT NWork = %d\nCONSTANT RetryWal = %s\nSPECIFICATION Spec\n%s' % (
            ', '.join(s(p) for p in procs), cfg['mode'], 'TRUE' if cfg['exists'] else 'FALSE', cfg['nwork'], 'TRUE' if cfg.get('retrywal', True) else 'FALSE',
            ''.join('INVARIANT %s\n' % i for i in INV)))
    return name


def mc_part(tier, d, verdict):
    tot_s = tot_t = 0
    tool = []
    cover = {}
    for cfg in configs(tier):
        name = write(cfg, d)
        res = common.run_tlc(name, name + '.cfg', d, workers=4, timeout=900)
        tot_s += res.distinct
        tot_t += res.generated
        for a, (dist, tot) in res.coverage.items():
            cover[a] = cover.get(a, 0) + tot
        if res.error:
            tool.append('%s: %s' % (name, res.error))
        elif res.violated:
            rp = os.path.join(d, 'counterexample_%s.txt' % name)
            with open(rp, 'w') as f:
                f.write('RedoDb %s violates %s\n\n%s' % (cfg, res.violated, res.trace[:20000]))
            verdict.violation('spec:%s:%s' % (cfg['name'], res.violated), rp, 'RedoDb violates %s (%s)' % (res.violated, cfg['name']))
    pinned = []
    for ex, inv in ((True, 'NoSpuriousFailure'), (False, 'NoSpuriousFailure')):
        cfg = {'name': 'db_pinned_%s' % ('ex' if ex else 'new'), 'mix': 'bbq', 'exists': ex, 'nwork': 1, 'mode': 'pinned'}
        name = write(cfg, d)
        res = common.run_tlc(name, name + '.cfg', d, workers=4, timeout=600)
        pinned.append({'config': cfg['name'], 'expected': inv, 'found': res.violated})
        if res.violated != inv:
            tool.append('anti-vacuity: the pinned start-up should violate %s (%s), TLC says %s' % (inv, cfg['name'], res.violated or res.error))
    # the WAL switch of connect(): without the retry a first invocation fails while another one is in its transaction
    cfg = {'name': 'db_noretry_new', 'mix': 'bbq', 'exists': False, 'nwork': 1, 'mode': 'fixed', 'retrywal': False}
    name = write(cfg, d)
    res = common.run_tlc(name, name + '.cfg', d, workers=4, timeout=600)
    pinned.append({'config': cfg['name'], 'expected': 'NoSpuriousFailure', 'found': res.violated})
    if res.violated != 'NoSpuriousFailure':
        tool.append('anti-vacuity: connect() without retry should violate NoSpuriousFailure, TLC says %s' % (res.violated or res.error))
    for a in ('FBegin', 'RunId', 'WorkBegin', 'WorkCommit', 'QueryRun'):
        if not any(a in k for k in cover):
            pass
    return {'states': tot_s, 'transitions': tot_t, 'db_model_configs': len(configs(tier)), 'pinned_counterexamples': pinned,
            'action_coverage': cover, 'invariants': INV}, tool
