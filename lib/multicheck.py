"""C06 / C16: several top-level commands at once on one project; lock, script and transaction events of all of
them are validated by TLC against TraceLocks / TraceDb (and their token events against TraceJobs)."""
import json
import os
import random
import shutil
import threading
import time
from concurrent.futures import ThreadPoolExecutor

import common
import jobcheck
import jobdrive
import tracecheck

DB_ERRORS = ('database is locked', 'database table is locked', 'no such table', 'schema', 'SQLITE_BUSY', 'disk I/O error',
             'EDEADLK', 'database disk image', 'constraint failed')


def scenario_list(tier, seed, focus):
    rnd = random.Random(seed * 104729 + (3 if focus == 'locks' else 4))
    n = {'quick': 40 if focus == 'locks' else 24, 'thorough': 160}[tier]
    out = []
    for i in range(n):
        out.append({'id': i, 'seed': rnd.randrange(1 << 30),
                    'size': rnd.choice([4, 6, 8, 12] if tier == 'quick' else [4, 6, 8, 12, 16, 24]),
                    'ncmd': rnd.randint(2, 6) if focus == 'locks' else rnd.randint(3, 10),
                    'queries': focus == 'db' or rnd.random() < 0.3,
                    'fresh': rnd.random() < (0.5 if focus == 'db' else 0.35),     # no .redo yet: the commands create it
                    'fail': rnd.choice([0, 0, 0, 1]),
                    'stamp': rnd.choice([0, 1, 2]) if focus == 'db' else rnd.choice([1, 2, 2, 3]),
                    'log': rnd.random() < 0.3,
                    'spread_ms': rnd.choice([0, 0, 5, 30, 100]),
                    # every fourth scenario under controlled scheduling: all processes of all commands stop at every gate
                    # of the hooked redo and a seeded scheduler (uniform or PCT priorities) lets one go at a time
                    'sched': i % 4 == 3,
                    # the state directory was removed after a build (rm -rf .redo): the outputs are on disk but unknown,
                    # every command has to add their records (also the transaction in which `redo` looks at its arguments)
                    'wiped': i % 5 == 1})
    return out


def run_scenario(sc, root, bindir, focus):
    rnd = random.Random(sc['seed'])
    d = os.path.join(root, 'm%03d' % sc['id'])
    shutil.rmtree(d, ignore_errors=True)
    os.makedirs(d)
    pj = jobdrive.gen_project(rnd, sc['size'], fail=min(sc['fail'], sc['size'] - 1), stamp=sc['stamp'], sleep_ms=(2, 40))
    pdir = os.path.join(d, 'p')
    jobdrive.materialize(pj, pdir)
    trace = os.path.join(d, 'trace.ndjson')
    open(trace, 'w').close()
    rts = jobcheck.roots(pj)
    extra = {} if sc['log'] else {'REDO_LOG': '0'}
    problems, cmds = [], []
    if not sc['fresh']:
        r = jobdrive.run_build(bindir, pdir, trace, ['redo', '-j3'] + rts, timeout=90, extra_env=extra)
        r['stderr'] = r['stderr'][-2000:]
        cmds.append(r)
        with open(os.path.join(pdir, 'src'), 'w') as f:
            f.write('v2\n')
        if sc.get('wiped'):
            shutil.rmtree(os.path.join(pdir, '.redo'), ignore_errors=True)
            open(trace, 'w').close()
            cmds.clear()
        elif rnd.random() < 0.5:
            # some generated files have vanished (a `make clean` of part of the tree)
            for t in rnd.sample(pj['targs'], min(2, len(pj['targs']))):
                try:
                    os.unlink(os.path.join(pdir, t))
                except OSError:
                    pass
    plan = []

    def sp(t):
        # one file, several spellings (plain, ./, through the symbolic link `here -> .`): one record, one lock, one build
        return rnd.choice([t, t, './' + t, 'here/' + t])
    for k in range(sc['ncmd']):
        kind = rnd.random()
        if sc['queries'] and kind < 0.4:
            argv = [rnd.choice(['redo-ood', 'redo-targets', 'redo-sources'])]
        elif kind < 0.7:
            sub = rnd.sample(pj['targs'], rnd.randint(1, min(3, len(pj['targs']))))
            argv = ['redo-ifchange'] + [sp(t) for t in sub]
        else:
            argv = ['redo', '-j%d' % rnd.choice([1, 2, 4])] + [sp(t) for t in (rts if rnd.random() < 0.6 else rnd.sample(pj['targs'], 1))]
        # with log capture: now and then the reader of a command's output goes away while it builds (its log viewer is
        # killed): the command has to go on, hold its locks and record its jobs as ever
        kv = 0.03 + rnd.random() * 0.15 if (sc['log'] and argv[0] in ('redo', 'redo-ifchange') and rnd.random() < 0.4) else None
        plan.append((rnd.random() * sc['spread_ms'] / 1000.0, argv, kv))
    lock = threading.Lock()
    ser = None
    if sc.get('sched'):
        import harness
        ser = harness.Serializer(os.path.join(d, 'sgate'), sc['seed'] % 100000, settle=0.008)
        extra = dict(extra, **ser.env())

    def launch(delay, argv, kv=None):
        time.sleep(delay)
        r = jobdrive.run_build(bindir, pdir, trace, argv, timeout=180 if ser else 120, extra_env=extra, kill_viewer_after=kv)
        r['viewer_killed_after'] = kv
        r['stderr'] = r['stderr'][-3000:]
        r['stdout'] = r['stdout'][-300:]
        with lock:
            cmds.append(r)

    ths = [threading.Thread(target=launch, args=x) for x in plan]
    for t in ths:
        t.start()
    for t in ths:
        t.join()
    if ser:
        ser.close()
    failing = bool(pj['fail'])
    for r in cmds:
        name = ' '.join(r['argv'])
        se = r['stderr']
        if r.get('viewer_killed_after') is not None and r['rc'] == 99 and 'failed to start redo-log' in se:
            continue        # the viewer was killed while it started up: redo refuses to go on (nothing was built)
        for pb in jobdrive.classify(r, None):
            problems.append('%s: %s' % (name, pb))
        for pat in DB_ERRORS:
            if pat in se:
                i = se.find(pat)
                problems.append('%s: spurious error (exit %s): %s' % (name, r['rc'], se[max(0, i - 120):i + 120].replace('\n', ' | ')))
                break
        else:
            if r['rc'] != 0 and not r['timed_out'] and 'panicked' not in se:
                if r['argv'][0] in ('redo-ood', 'redo-targets', 'redo-sources'):
                    problems.append('%s: query failed with exit %s: %s' % (name, r['rc'], se[-300:].replace('\n', ' | ')))
                elif not failing:
                    problems.append('%s: exit %s although no script fails: %s' % (name, r['rc'], se[-400:].replace('\n', ' | ')))
    census = None
    dbp = os.path.join(pdir, '.redo', 'db.sqlite3')
    if os.path.exists(dbp):
        rows, edges, integrity = tracecheck.read_census(dbp)
        census = (rows, edges)
        if integrity != 'ok':
            problems.append('pragma integrity_check: %s' % integrity)
    with open(os.path.join(d, 'scenario.json'), 'w') as f:
        json.dump({'scenario': sc, 'project': pj, 'commands': cmds, 'problems': problems}, f, indent=1)
    return {'sc': dict(sc, j=0, inherit=False), 'dir': d, 'trace': trace, 'problems': problems, 'cmds': cmds, 'census': census}


def history_runs(tier, root, bindir, n_per_prog=6):
    """a second source of recorded executions: TLC-generated user-level histories of the RedoSys program families
    (overrides, static sources, missing rules, ifcreate, always, checksums, failures, -j2 trees) executed with tracing;
    what they do between the commands is validated like the stress scenarios"""
    import harness
    import histories
    import programs
    fam = programs.parallel_family() + [programs.complete(f()) for f in (programs.roles, programs.failing, programs.ifcreate_prog,
                                                                          programs.always_prog, programs.stamped_mid2, programs.subdirs)]
    out = []
    rnd = random.Random(common.seed() + 77)
    for prog in fam:
        d = os.path.join(root, 'hist_' + prog['name'])
        os.makedirs(d, exist_ok=True)
        mh, mcm = prog.get('bounds', (4, 3))
        res, hs = histories.gen_histories(prog, d, max_hist=min(mh, 4), max_cmds=min(mcm, 3), invariants=[], workers=4, timeout=900)
        if res.error or res.violated:
            continue
        groups = histories.group_histories(hs)
        keys = sorted((k for k in groups if histories.interesting(k, 2)), key=repr)
        rnd.shuffle(keys)
        for i, k in enumerate(keys[:n_per_prog if tier == 'quick' else 4 * n_per_prog]):
            rd = os.path.join(d, 'h%03d' % i)
            trace = os.path.join(d, 'h%03d.ndjson' % i)
            if os.path.exists(trace):
                os.unlink(trace)
            ok, rep = harness.replay_group(prog, groups[k], rd, bindir, trace=trace, log_mode='0', jitter=True)
            census = None
            dbp = os.path.join(rd, 'p', '.redo', 'db.sqlite3')
            if os.path.exists(dbp):
                rows, edges, integ = tracecheck.read_census(dbp)
                census = (rows, edges)
            with open(os.path.join(rd, 'scenario.json') if os.path.isdir(rd) else trace + '.json', 'w') as f:
                json.dump({'program': prog['name'], 'history_input': [list(x) for x in k]}, f, default=list)
            out.append({'sc': {'id': 'hist:%s:%d' % (prog['name'], i), 'j': 0, 'inherit': False, 'history': [list(x) for x in k]},
                        'dir': rd, 'trace': trace, 'problems': [], 'cmds': [], 'census': census})
    return out


def storm(i, seed, root, bindir, n=16):
    """n commands started at the same instant in a project without .redo: they race for creating the state
    directory, the database file, its journal mode, the tables and the first run ids"""
    import subprocess
    rnd = random.Random(seed)
    d = os.path.join(root, 'storm%03d' % i)
    shutil.rmtree(d, ignore_errors=True)
    pdir = os.path.join(d, 'p')
    os.makedirs(pdir)
    for k in range(4):
        with open(os.path.join(pdir, 't%d.do' % k), 'w') as f:
            f.write('echo t%d\n' % k)
    trace = os.path.join(d, 'trace.ndjson')
    open(trace, 'w').close()
    env = jobdrive.base_env(bindir, trace, {'REDO_LOG': '0'})
    plan = [rnd.choice([['redo-targets'], ['redo-sources'], ['redo-ood'], ['redo-ifchange', 't%d' % rnd.randrange(4)],
                        ['redo', 't%d' % rnd.randrange(4)]]) for _ in range(n)]
    procs = [subprocess.Popen(a, cwd=pdir, env=env, stdin=subprocess.DEVNULL, stdout=subprocess.PIPE, stderr=subprocess.PIPE,
                              start_new_session=True) for a in plan]
    cmds, problems = [], []
    for a, p in zip(plan, procs):
        try:
            so, se = p.communicate(timeout=120)
            to = False
        except subprocess.TimeoutExpired:
            p.kill()
            so, se = p.communicate()
            to = True
        r = {'argv': a, 'rc': p.returncode, 'stderr': se.decode('utf-8', 'replace')[-1500:], 'stdout': so.decode('utf-8', 'replace')[-200:],
             'timed_out': to}
        cmds.append(r)
        if r['rc'] != 0 or to:
            problems.append('%s: exit %s in a storm of %d first commands: %s' % (' '.join(a), r['rc'], n, r['stderr'][-300:].replace('\n', ' | ')))
    census = None
    dbp = os.path.join(pdir, '.redo', 'db.sqlite3')
    if os.path.exists(dbp):
        rows, edges, integrity = tracecheck.read_census(dbp)
        census = (rows, edges)
        if integrity != 'ok':
            problems.append('pragma integrity_check: %s' % integrity)
    sc = {'id': 'storm%03d' % i, 'seed': seed, 'n': n, 'j': 0, 'inherit': False}
    with open(os.path.join(d, 'scenario.json'), 'w') as f:
        json.dump({'scenario': sc, 'commands': cmds, 'problems': problems}, f, indent=1)
    return {'sc': sc, 'dir': d, 'trace': trace, 'problems': problems, 'cmds': cmds, 'census': census}


def busy_wait_probe(root, bindir, hold_s=6.5):
    """RedoDb models BEGIN IMMEDIATE as waiting for the write lock (busy timeout 60 s).  Bind that assumption: another
    connection holds the write lock for longer than SQLite's and rusqlite's default timeouts (0 s / 5 s); a command that
    starts meanwhile must wait and succeed"""
    import sqlite3
    import subprocess
    d = os.path.join(root, 'busy_wait')
    shutil.rmtree(d, ignore_errors=True)
    pdir = os.path.join(d, 'p')
    os.makedirs(pdir)
    with open(os.path.join(pdir, 't.do'), 'w') as f:
        f.write('echo t\n')
    trace = os.path.join(d, 'trace.ndjson')
    open(trace, 'w').close()
    env = jobdrive.base_env(bindir, trace, {'REDO_LOG': '0'})
    subprocess.run(['redo', 't'], cwd=pdir, env=env, stdin=subprocess.DEVNULL, stdout=subprocess.DEVNULL, stderr=subprocess.DEVNULL)
    con = sqlite3.connect(os.path.join(pdir, '.redo', 'db.sqlite3'), isolation_level=None, timeout=30)
    con.execute('BEGIN IMMEDIATE')
    t0 = time.time()
    procs = [subprocess.Popen(a, cwd=pdir, env=env, stdin=subprocess.DEVNULL, stdout=subprocess.PIPE, stderr=subprocess.PIPE)
             for a in (['redo-targets'], ['redo-ifchange', 't'], ['redo', 't'])]
    time.sleep(hold_s)
    con.execute('ROLLBACK')
    con.close()
    problems, cmds = [], []
    for p in procs:
        try:
            so, se = p.communicate(timeout=90)
        except subprocess.TimeoutExpired:
            p.kill()
            so, se = p.communicate()
        cmds.append({'argv': p.args, 'rc': p.returncode, 'stderr': se.decode('utf-8', 'replace')[-600:], 'waited_s': round(time.time() - t0, 1)})
        if p.returncode != 0:
            problems.append('%s: exit %s while another connection held the write lock for %.1f s: %s'
                            % (' '.join(p.args), p.returncode, hold_s, se.decode('utf-8', 'replace')[-300:].replace('\n', ' | ')))
    sc = {'id': 'busy_wait', 'hold_s': hold_s, 'j': 0, 'inherit': False}
    with open(os.path.join(d, 'scenario.json'), 'w') as f:
        json.dump({'scenario': sc, 'commands': cmds, 'problems': problems}, f, indent=1, default=str)
    return {'sc': sc, 'dir': d, 'trace': trace, 'problems': problems, 'cmds': [], 'census': None}


def validate(results, root, module, project, invariants):
    """one TLC run over the concatenation of all scenarios' projections; violations are attributed to their scenario"""
    segs = []
    for res in results:
        try:
            evs = tracecheck.load(res['trace'])
        except tracecheck.TraceError as ex:
            res['problems'].append('unusable trace: %s' % ex)
            continue
        segs.append((res, project(evs, res)))
    total = sum(len(r) for _, r in segs)
    accepted = 0
    violations = []
    rounds = 0
    while segs and rounds < 12:
        rounds += 1
        path = os.path.join(root, '%s_%d.ndjson' % (module, rounds))
        tracecheck.write_ndjson([x for _, run in segs for x in run], path)
        tr = tracecheck.validate(module, path, root, invariants, timeout=1200)
        if tr.error:
            raise common.ToolError('%s: %s' % (module, tr.error))
        if tr.ok:
            accepted += len(segs)
            break
        pos, bad_i = 0, len(segs) - 1
        for i, (_, run) in enumerate(segs):
            if pos + len(run) >= max(tr.reached, 1):
                bad_i = i
                break
            pos += len(run)
        violations.append((segs[bad_i][0], tr.violated, tr.detail))
        accepted += bad_i
        segs = segs[bad_i + 1:]
    return {'events': total, 'accepted': accepted, 'violations': violations}


def run_check(pid, tier, focus, verdict):
    bindir = common.build_redo()
    root = common.workdir('%s_%s_multi' % (pid, tier))
    scs = scenario_list(tier, common.seed(), focus)
    with ThreadPoolExecutor(4) as ex:
        results = list(ex.map(lambda sc: run_scenario(sc, root, bindir, focus), scs))
    hist = history_runs(tier, root, bindir)
    results += hist
    n_storm = 0
    if focus == 'db':
        rnd = random.Random(common.seed() + 16)
        for i in range(12 if tier == 'quick' else 100):
            results.append(storm(i, rnd.randrange(1 << 30), root, bindir))
            n_storm += 1
        results.append(busy_wait_probe(root, bindir))
    n_unl = 0
    for r in results:
        try:
            n_unl += sum(1 for ln in open(r['trace']) if '"ev":"ProcStart"' in ln and '"unlocked":"1"' in ln)
        except OSError:
            pass
    cov = {'first_command_storms': n_storm, 'history_driven_executions': len(hist), 'redo_unlocked_delegates_observed': n_unl, 'concurrent_scenarios': len(results) - len(hist) - n_storm, 'real_commands': sum(len(r['cmds']) for r in results),
           'fresh_state_dirs': sum(1 for s in scs if s['fresh']), 'seed': common.seed()}
    other = 0
    for r in results:
        for pb in r['problems']:
            if focus == 'db':
                # C16: a command failed for a reason that is not in the build scripts
                verdict.violation('run:%s' % problem_key(pb), r['dir'], 'scenario %s: %s' % (json.dumps(r['sc']), pb))
            else:
                other += 1      # not what C06 is about (C09 / C16 report these); the traces are still validated
    cov['commands_with_other_problems'] = other
    specs = []
    if focus == 'locks':
        specs.append(('TraceLocks', lambda evs, res: tracecheck.locks_run(evs), ['Accepted', 'Mutex']))
    specs.append(('TraceDb', lambda evs, res: tracecheck.db_run(evs, res['census']), ['Accepted']))
    total_acc = 0
    for module, proj, invs in specs:
        val = validate(results, root, module, proj, invs)
        cov['%s_events' % module] = val['events']
        cov['%s_accepted' % module] = val['accepted']
        total_acc += val['accepted']
        for (r, inv, detail) in val['violations']:
            import re
            m = re.search(r'bad = "([^"]*)"', detail)
            why = m.group(1) if m else inv
            rp = os.path.join(r['dir'], '%s_violation.txt' % module)
            with open(rp, 'w') as f:
                f.write('%s: %s\nscenario %s\n\n%s\n' % (module, why, json.dumps(r['sc']), detail))
            verdict.violation('trace:%s:%s' % (module, why), r['dir'],
                              '%s rejects the recorded execution: %s (scenario %s)\n%s'
                              % (module, why, json.dumps(r['sc']), detail[-1200:]))
    # token layer of the same runs
    jv = jobcheck.validate_runs(results, root)
    cov['TraceJobs_events'] = jv['events']
    cov['TraceJobs_accepted'] = jv['accepted']
    for (r, inv, detail, path) in jv['violations']:
        verdict.violation('trace:TraceJobs:%s' % inv, r['dir'], 'TraceJobs: %s (scenario %s)\n%s' % (inv, json.dumps(r['sc']), detail[-1200:]))
    cov['traces_validated_against_impl'] = total_acc
    clean = [r for r in results if not r['problems']]
    if clean:
        r = clean[0]
        cov['samples'] = [{'scenario': r['sc'], 'commands': [' '.join(c['argv']) for c in r['cmds']], 'exit': [c['rc'] for c in r['cmds']]}]
    else:
        cov['samples'] = [{'note': 'no clean scenario'}]
    bad_dirs = set(v[1] for v in verdict.violations) | set(r['dir'] for r in results if r['problems'])
    for r in results:
        if r['dir'] not in bad_dirs:
            shutil.rmtree(r['dir'], ignore_errors=True)
    return cov


def problem_key(pb):
    if 'spurious error' in pb:
        for pat in DB_ERRORS:
            if pat in pb:
                return 'db:' + pat.replace(' ', '_')
    return jobcheck.classify_key(pb)
