"""C04 / C11 without hooks: what redo does to the files of a project, read off `strace -f` and validated by TLC
against spec/TraceFs.tla (a redo process never writes into a project file; a target changes only by
rename(<t>.redo.tmp, t) or unlink(t) after its script exited 0; files the user owns are left alone; nothing stays at $3).

The histories are TLC's (RedoSys, the program families of C04 and C11); the set of user-owned files at the start of
every command is read off the specification state (content terms written by hand)."""
import json
import os
import re
import shutil
import time
from concurrent.futures import ThreadPoolExecutor

import common
import harness
import histories
import tracecheck

SYSCALLS = 'execve,open,openat,creat,rename,renameat,renameat2,unlink,unlinkat,rmdir,chdir,fchdir,clone,clone3,fork,vfork'
_line = re.compile(r'^(\d+)\s+(.*)$')
_str = r'"((?:[^"\\]|\\.)*)"'


def unq(s):
    return bytes(s, 'latin-1').decode('unicode_escape').encode('latin-1').decode('utf-8', 'replace')


def parse_strace(path, projdir, rootpid=None):
    """-> list of events (dicts) in file order; paths relative to projdir (others are dropped)"""
    pending = {}
    cwd = {}
    evs = []
    first = None

    def rel(pid, p, dirfd_ok=True):
        if not p.startswith('/'):
            p = os.path.join(cwd.get(pid, projdir), p)
        p = os.path.normpath(p)
        if p == projdir or not p.startswith(projdir + '/'):
            return None
        r = p[len(projdir) + 1:]
        if r.startswith('.redo/') or r == '.redo':
            return None
        return r

    for raw in open(path, errors='replace'):
        m = _line.match(raw.rstrip('\n'))
        if not m:
            continue
        pid, rest = int(m.group(1)), m.group(2)
        if first is None:
            first = pid
            cwd[pid] = projdir
        if rest.endswith('<unfinished ...>'):
            pending[pid] = rest[:-len('<unfinished ...>')].rstrip()
            continue
        mr = re.match(r'<\.\.\. (\w+) resumed>(.*)$', rest)
        if mr:
            rest = pending.pop(pid, mr.group(1) + '(') + mr.group(2)
        if rest.startswith('+++ exited with'):
            evs.append({'ev': 'Exit', 'pid': pid, 'rv': int(rest.split()[3])})
            continue
        if rest.startswith('+++ killed by'):
            evs.append({'ev': 'Exit', 'pid': pid, 'rv': -1})
            continue
        mc = re.match(r'(\w+)\((.*)\)\s+=\s+(-?\d+|\?)(.*)$', rest)
        if not mc:
            continue
        name, args, ret = mc.group(1), mc.group(2), mc.group(3)
        if ret == '?' or int(ret) < 0:
            continue
        ret = int(ret)
        if name in ('clone', 'clone3', 'fork', 'vfork'):
            cwd[ret] = cwd.get(pid, projdir)
        elif name == 'chdir':
            ms = re.match(_str, args)
            if ms:
                p = unq(ms.group(1))
                cwd[pid] = os.path.normpath(p if p.startswith('/') else os.path.join(cwd.get(pid, projdir), p))
        elif name == 'execve':
            ms = re.match(_str + r', \[(.*?)\](?:, |$)', args)
            if not ms:
                continue
            argv = [unq(x) for x in re.findall(_str, ms.group(2))]
            base = os.path.basename(argv[0]) if argv else ''
            if base in common.REDO_NAMES:
                evs.append({'ev': 'Exec', 'pid': pid, 'kind': 'redo', 't': ''})
            elif base == 'sh' and len(argv) >= 6 and argv[1].startswith('-e') and argv[2].endswith('.do'):
                t = rel(pid, argv[3])
                evs.append({'ev': 'Exec', 'pid': pid, 'kind': 'script', 't': t or ''})
            else:
                evs.append({'ev': 'Exec', 'pid': pid, 'kind': 'other', 't': ''})
        elif name in ('open', 'openat', 'creat'):
            strs = re.findall(_str, args)
            if not strs:
                continue
            p = rel(pid, unq(strs[0]))
            if p is None:
                continue
            w = name == 'creat' or bool(re.search(r'O_WRONLY|O_RDWR|O_CREAT|O_TRUNC|O_APPEND', args))
            if w and 'O_DIRECTORY' not in args:
                evs.append({'ev': 'Open', 'pid': pid, 'path': p, 'w': True})
        elif name in ('rename', 'renameat', 'renameat2'):
            strs = re.findall(_str, args)
            if len(strs) < 2:
                continue
            a, b = rel(pid, unq(strs[0])), rel(pid, unq(strs[1]))
            if b is not None or a is not None:
                evs.append({'ev': 'Rename', 'pid': pid, 'src': a or '<outside>', 'dst': b or '<outside>'})
        elif name in ('unlink', 'unlinkat', 'rmdir'):
            strs = re.findall(_str, args)
            if not strs:
                continue
            p = rel(pid, unq(strs[0]))
            if p is not None:
                evs.append({'ev': 'Unlink', 'pid': pid, 'path': p})
    return evs


def user_owned(snap_files):
    return sorted(n for n, v in snap_files.items() if v.get('k') in ('user', 'do', 'link'))


def traced_history(prog, hist, root, bindir):
    """execute one history; every command runs under strace; returns (records for TraceFs, problems)"""
    pj = harness.Project(prog, root, bindir, log_mode='0')
    recs, probs = [], []
    owned = set(prog['init'])
    for i, st in enumerate(hist):
        a = st['a']
        if a == 'write':
            pj.write_user(st['n'], st['v'])
            owned.add(st['n'])
        elif a == 'rm':
            pj.remove(st['n'])
            owned.discard(st['n'])
        elif a in ('doedit', 'doadd'):
            pj.write_do(st['n'], st['v'])
            owned.add(st['n'])
        elif a == 'relink':
            pj.make_link(st['n'], st['v'])
            owned.add(st['n'])
        elif a == 'tmp':
            stale = pj.path(st['n']) + '.redo.tmp'
            if os.path.isdir(stale) and not os.path.islink(stale):
                shutil.rmtree(stale)
            elif os.path.lexists(stale):
                os.unlink(stale)
            if st.get('v') == 'l':
                os.symlink('data-that-was-never-written', pj.path(st['n']) + '.redo.tmp')
            else:
                with open(pj.path(st['n']) + '.redo.tmp', 'w') as f:
                    f.write('stale partial output of an earlier, killed build\n')
        elif a == 'cmd':
            argv = ['redo-ifchange' if st['kind'] == 'ifchange' else 'redo']
            if st['keep'] and st['kind'] == 'redo':
                argv.append('-k')
            if st.get('j', 1) > 1 and st['kind'] == 'redo':
                argv.append('-j%d' % st['j'])
            argv += list(st['targs'])
            logf = os.path.join(root, 'strace_%d.log' % i)
            sargv = ['strace', '-f', '-o', logf, '-s', '512', '-e', 'trace=' + SYSCALLS, '-e', 'signal=none'] + argv
            rc, so, se, started, to = pj.run(sargv, timeout=90, extra_env={'REDO_KEEP_GOING': '1'} if st['keep'] else None)
            if to:
                probs.append('command %s did not terminate under strace' % ' '.join(argv))
            recs.append({'ev': 'Reset', 'pid': 0, 'user': sorted(owned), 'plain': sorted(pj.files)})
            try:
                recs += parse_strace(logf, os.path.realpath(pj.dir))
            except OSError as ex:
                probs.append('no strace log: %r' % ex)
            recs.append({'ev': 'End', 'pid': 0})
            owned = set(user_owned(st['snap']['files']))
        elif a == 'query':
            pj.run(['redo-' + st['kind']], timeout=60)
    return recs, probs


def run_fs(pid, tier, family, verdict, bindir, per_prog=None):
    t0 = time.time()
    root = common.workdir('%s_%s_fsops' % (pid, tier))
    per_prog = per_prog or (6 if tier == 'quick' else 60)
    jobs = []
    states = 0
    tool = []
    for prog in family:
        d = os.path.join(root, prog['name'])
        os.makedirs(d, exist_ok=True)
        mh, mcm = prog.get('bounds', (4, 3))
        res, hs = histories.gen_histories(prog, d, max_hist=min(mh, 4), max_cmds=min(mcm, 3), invariants=[], workers=4, timeout=900)
        if res.error or res.violated:
            tool.append('fscheck: TLC on %s: %s' % (prog['name'], res.error or res.violated))
            continue
        states += res.distinct
        groups = histories.group_histories(hs)
        keys = sorted((k for k in groups if histories.interesting(k, 2)), key=repr)
        import random
        random.Random(common.seed() + 404).shuffle(keys)
        for i, k in enumerate(keys[:per_prog]):
            jobs.append((prog, groups[k][0], os.path.join(d, 'f%03d' % i), k))

    def work(j):
        prog, hist, rd, k = j
        try:
            recs, probs = traced_history(prog, hist, rd, bindir)
        except Exception as ex:
            import traceback
            recs, probs = [], ['harness exception %r %s' % (ex, traceback.format_exc()[-400:])]
        return {'prog': prog['name'], 'dir': rd, 'recs': recs, 'problems': probs, 'input': [list(x) for x in k]}
    with ThreadPoolExecutor(8) as ex:
        results = list(ex.map(work, jobs))
    for r in results:
        for pb in r['problems']:
            tool.append('fscheck %s: %s' % (r['prog'], pb))
    segs = [(r, r['recs']) for r in results if r['recs']]
    total = sum(len(x) for _, x in segs)
    accepted, rounds = 0, 0
    while segs and rounds < 12:
        rounds += 1
        path = os.path.join(root, 'TraceFs_%d.ndjson' % rounds)
        tracecheck.write_ndjson([x for _, run in segs for x in run], path)
        tr = tracecheck.validate('TraceFs', path, root, ['Accepted'], timeout=900)
        if tr.error:
            tool.append('TraceFs: ' + tr.error)
            break
        if tr.ok:
            accepted += len(segs)
            break
        pos, bad_i = 0, len(segs) - 1
        for i, (_, run) in enumerate(segs):
            if pos + len(run) >= max(tr.reached, 1):
                bad_i = i
                break
            pos += len(run)
        r = segs[bad_i][0]
        m = re.search(r'bad = "([^"]*)"', tr.detail)
        why = m.group(1) if m else tr.violated
        rp = os.path.join(r['dir'], 'tracefs_violation.txt')
        os.makedirs(r['dir'], exist_ok=True)
        with open(rp, 'w') as f:
            f.write('program %s, history %s\nTraceFs: %s\n\n%s\n' % (r['prog'], r['input'], why, tr.detail))
        verdict.violation('trace:TraceFs:%s' % why, rp, 'system-call trace of program %s, history %s: %s' % (r['prog'], r['input'], why))
        accepted += bad_i
        segs = segs[bad_i + 1:]
    bad_dirs = set(os.path.dirname(v[1]) for v in verdict.violations)
    for r in results:
        if r['dir'] not in bad_dirs:
            shutil.rmtree(r['dir'], ignore_errors=True)
    return {'fsop_histories_traced': len(results), 'fsop_events': total, 'fsop_traces_accepted': accepted,
            'fsop_states': states, 'fsop_wall_s': round(time.time() - t0, 1)}, tool
