"""RedoJobs scenarios: model checking of the jobserver/scheduler specification (C08, C09)."""
import json
import os

import common
from tla import s, seq, sset, fn

INVARIANTS = ['Conservation', 'MaxWork', 'NoPanic', 'ExitBalanced', 'QuiescentExact', 'AllSucceedExit0',
              'NotHung', 'TokensSane']


def scen(name, top, kids, j=2, own=True, fail=(), clean=(), ext=(), keep=False, cheating=False,
         tokfirst=False, maxworld=0, fixp2=True, fixexit=True):
    allt = set(top)
    for k, calls in kids.items():
        allt.add(k)
        for c in calls:
            allt.update(c)
    kids = {t: kids.get(t, []) for t in sorted(allt)}
    return dict(name=name, top=list(top), kids=kids, j=j, own=own, fail=list(fail), clean=list(clean),
                ext=list(ext), keep=keep, cheating=cheating, tokfirst=tokfirst, maxworld=maxworld, fixp2=fixp2,
                fixexit=fixexit)


def family(tier):
    """small process trees: flat fans, two levels, failing jobs, a target locked by another invocation,
    inherited jobserver with an active outside world, token-fd-first handling order, cheating"""
    fam = []
    two = {'a': [['x']], 'b': []}
    deep = {'a': [['x', 'y']], 'b': [['z']]}
    for j in (1, 2, 3):
        fam.append(scen('fan3_j%d' % j, ['a', 'b', 'c'], {}, j=j))
        fam.append(scen('two_j%d' % j, ['a', 'b'], two, j=j))
        fam.append(scen('two_ext_j%d' % j, ['a', 'b'], two, j=j, ext=['b']))
        fam.append(scen('two_extx_j%d' % j, ['a', 'b'], two, j=j, ext=['x']))
        fam.append(scen('two_fail_j%d' % j, ['a', 'b'], two, j=j, fail=['x']))
        fam.append(scen('two_failk_j%d' % j, ['a', 'b'], two, j=j, fail=['b'], keep=True))
        fam.append(scen('two_inh_j%d' % j, ['a', 'b'], two, j=j, own=False, maxworld=1))
        fam.append(scen('two_inh_tf_j%d' % j, ['a', 'b'], two, j=j, own=False, maxworld=1, tokfirst=True))
        fam.append(scen('two_clean_j%d' % j, ['a', 'b', 'c'], two, j=j, clean=['b']))
    fam.append(scen('deep_j2', ['a', 'b'], deep, j=2))
    fam.append(scen('deep_ext_j2', ['a', 'b'], deep, j=2, ext=['z']))
    fam.append(scen('seq_calls_j2', ['a'], {'a': [['x'], ['y']]}, j=2))
    fam.append(scen('two_cheat_j1', ['a', 'b'], two, j=1, cheating=True))
    fam.append(scen('two_cheat_j2', ['a', 'b'], two, j=2, cheating=True))
    fam.append(scen('two_inh_cheat_j2', ['a', 'b'], two, j=2, own=False, maxworld=1, cheating=True))
    fam.append(scen('two_cheat_extx_j1', ['a', 'b'], two, j=1, cheating=True, ext=['x']))
    fam.append(scen('two_cheat_extx_j2', ['a', 'b'], two, j=2, cheating=True, ext=['x']))
    if tier == 'thorough':
        for j in (2, 3):
            fam.append(scen('deep_j%d_t' % j, ['a', 'b', 'c'], deep, j=j))
            fam.append(scen('deep_inh_j%d' % j, ['a', 'b'], deep, j=j, own=False, maxworld=2))
            fam.append(scen('deep_fail_j%d' % j, ['a', 'b'], deep, j=j, fail=['y'], keep=True))
            fam.append(scen('deep_ext2_j%d' % j, ['a', 'b'], deep, j=j, ext=['b', 'y']))
            fam.append(scen('three_levels_j%d' % j, ['a'], {'a': [['x']], 'x': [['y', 'z']]}, j=j))
        fam.append(scen('deep_cheat_j2', ['a', 'b'], deep, j=2, cheating=True))
    return fam


def pinned_family():
    """the repaired defects as the specification sees them (constants FixP2 / FixExit off): TLC must find the
    counterexamples again, which shows that the invariants are not vacuous"""
    two = {'a': [['x']], 'b': []}
    return [(scen('pinned_p2_j2', ['a', 'b'], two, j=2, ext=['b'], fixp2=False), 'NoPanic'),
            (scen('pinned_exit_j2', ['a', 'b'], two, j=2, cheating=True, ext=['x'], fixexit=False), 'ExitBalanced')]


def write_mc(sc, d, invariants=INVARIANTS):
    name = 'MCJ_' + sc['name']
    kids = fn([(s(t), seq([seq([s(x) for x in call]) for call in calls])) for t, calls in sc['kids'].items()])
    mod = '\n'.join([
        '---- MODULE %s ----' % name,
        'EXTENDS RedoJobs',
        'c_Kids == %s' % kids,
        'c_Top == %s' % seq([s(t) for t in sc['top']]),
        'c_Fail == %s' % sset([s(t) for t in sc['fail']]),
        'c_Clean == %s' % sset([s(t) for t in sc['clean']]),
        'c_Ext == %s' % sset([s(t) for t in sc['ext']]),
        '====', ''])
    b = lambda x: 'TRUE' if x else 'FALSE'
    cfg = '\n'.join([
        'CONSTANT J = %d' % sc['j'], 'CONSTANT Own = %s' % b(sc['own']),
        'CONSTANT TopTargs <- c_Top', 'CONSTANT Kids <- c_Kids', 'CONSTANT Fail <- c_Fail',
        'CONSTANT Clean <- c_Clean', 'CONSTANT Ext <- c_Ext', 'CONSTANT Keep = %s' % b(sc['keep']),
        'CONSTANT Cheating = %s' % b(sc['cheating']), 'CONSTANT TokFirst = %s' % b(sc['tokfirst']),
        'CONSTANT MaxWorld = %d' % sc['maxworld'], 'CONSTANT FixP2 = %s' % b(sc['fixp2']),
        'CONSTANT FixExit = %s' % b(sc.get('fixexit', True)),
        'SPECIFICATION Spec'] + ['INVARIANT %s' % i for i in invariants]) + '\n'
    open(os.path.join(d, name + '.tla'), 'w').write(mod)
    open(os.path.join(d, name + '.cfg'), 'w').write(cfg)
    return name


def run_mc(sc, d, invariants=INVARIANTS, workers=4, timeout=900):
    name = write_mc(sc, d, invariants)
    tr = os.path.join(d, name + '_trace.json')
    if os.path.exists(tr):
        os.unlink(tr)
    res = common.run_tlc(name, name + '.cfg', d, workers=workers, timeout=timeout, extra=['-dumpTrace', 'json', tr])
    return res, tr


def summarize_trace(path):
    """compact text of a TLC json counterexample of RedoJobs"""
    if not os.path.exists(path):
        return ''
    t = json.load(open(path))
    out = []
    for st in t['counterexample']['state']:
        n, v = st[0], st[1]
        procs = []
        for p, P in sorted(v['pr'].items()) if isinstance(v['pr'], dict) else []:
            procs.append('%s[%s/%s %s my=%d ch=%d jobs=%d unh=%d want=%s tm=%s rc=%s]' % (
                p, P['pc'], P.get('et', ''), P['md'], P['my'], P['ch'], len(P['jobs']), len(P['unh']),
                P['want'], P['tm'], P['rc']))
        out.append('%3d pipe=%s cpipe=%s world=%s viewer=%s ext=%s | %s' % (
            n, v['pipe'], v['cpipe'], v['world'], v['viewer'], v['ext'], ' '.join(procs)))
    return '\n'.join(out)
