"""Drives the real (hooked) redo through parallel builds and records event traces (C06, C08, C09, C16).

A project is a random layered DAG of targets; every .do script declares its dependencies, then marks a work
section (WorkBegin/WorkEnd events appended to the same trace file as redo's own events), sleeps a little
inside it and writes its output.  Configurations: own jobserver (-jN) or a jobserver inherited from the
harness through MAKEFLAGS (the harness owns both pipes, takes and returns tokens while the build runs and
counts the bytes left at the end); log capture on/off; failing targets with and without --keep-going;
delayed select() wake-ups through the `select` gate (makes several events become ready in one poll cycle);
several invocations at once on overlapping targets.
"""
import json
import os
import random
import shutil
import subprocess
import threading
import time

import common
import harness


def gen_project(rnd, n, fail=0, stamp=0, maxdeps=3, sleep_ms=(2, 25)):
    """targets t0..t(n-1); t_i depends on up to maxdeps targets with larger index.  Only targets without
    dependencies (and a few others) read the source file `src` directly, so that after an edit of `src` the
    inner targets are not plainly dirty but must be re-checked through their (possibly checksummed)
    dependencies -- the redo-unlocked path.  A checksummed target marked `const` ignores its inputs."""
    targs = ['t%02d' % i for i in range(n)]
    deps = {}
    for i, t in enumerate(targs):
        later = targs[i + 1:]
        k = rnd.randint(0, min(maxdeps, len(later)))
        deps[t] = sorted(rnd.sample(later, k))
    failing = set(rnd.sample(targs[1:], fail)) if fail else set()
    inner = [t for t in targs if deps[t]]
    leaves = [t for t in targs if not deps[t]]
    stamped = set()
    if stamp:
        # prefer targets that have dependents and dependencies of their own
        used = set(x for ds in deps.values() for x in ds)
        cand = [t for t in targs[1:] if t in used] or targs[1:]
        stamped = set(rnd.sample(cand, min(stamp, len(cand))))
    const = set(t for t in stamped if rnd.random() < 0.4)
    src = set(leaves) | set(t for t in inner if rnd.random() < 0.15)
    sleeps = {t: rnd.randint(*sleep_ms) for t in targs}
    return {'targs': targs, 'deps': deps, 'fail': sorted(failing), 'stamp': sorted(stamped), 'const': sorted(const),
            'src': sorted(src), 'sleeps': sleeps}


def do_text(pj, t):
    deps = pj['deps'][t]
    alld = (['src'] if t in pj['src'] else []) + deps
    mark = 'printf \'{"pid":%%d,"ev":"%s","t":"%s"}\\n\' $$ >> "$VT_TRACE"'
    lines = ["trap '%s' EXIT" % (mark % ('ScriptEnd', t)).replace("'", "'\\''"),     # before it ends, however it ends
             mark % ('ScriptStart', t)]        # after the script began
    if alld:
        lines.append('redo-ifchange %s' % ' '.join(alld))
    lines += [mark % ('WorkBegin', t),          # after the work section began
              'sleep 0.%03d' % pj['sleeps'][t],
              mark % ('WorkEnd', t),            # before it ends
              'echo "line of %s" >&2' % t]
    if t in pj['fail']:
        lines.append('exit 3')
    body = ('echo constant-%s' % t) if t in pj.get('const', []) else \
        ('cat %s 2>/dev/null | cksum' % ' '.join(alld) if alld else 'echo leaf-%s' % t)
    if t in pj['stamp']:
        lines.append('%s | tee $3 | redo-stamp' % body)
    else:
        lines.append(body)
    return '\n'.join(lines) + '\n'


def materialize(pj, d):
    shutil.rmtree(d, ignore_errors=True)
    os.makedirs(d)
    with open(os.path.join(d, 'src'), 'w') as f:
        f.write('v1\n')
    for t in pj['targs']:
        with open(os.path.join(d, t + '.do'), 'w') as f:
            f.write(do_text(pj, t))
    # a second name for the project directory: `here/t` is a spelling of `t` through a symbolic link to a directory
    os.symlink('.', os.path.join(d, 'here'))
    # refuse to run below a foreign .redo
    x = os.path.dirname(d)
    while x != '/':
        if os.path.exists(os.path.join(x, '.redo')):
            raise common.ToolError('ancestor %s contains .redo' % x)
        x = os.path.dirname(x)


def base_env(bindir, trace, extra=None):
    env = {k: v for k, v in os.environ.items()
           if not k.startswith('REDO') and k not in ('MAKEFLAGS', 'MFLAGS', 'MAKELEVEL')}
    env['PATH'] = bindir + ':' + env.get('PATH', '/usr/bin:/bin')
    env['REDO_VERIF_TRACE'] = trace
    env['VT_TRACE'] = trace
    if extra:
        env.update(extra)
    return env


class SelectDelayer(harness.GateController):
    """answers `select` gate requests after a random delay, so that events accumulate before the real select()"""

    def __init__(self, gdir, rnd, max_ms=30):
        self.rnd = rnd
        self.max_ms = max_ms
        super().__init__(gdir, lambda n, pid, pt: 'g', points='select')

    def loop(self):
        import select
        buf = b''
        while not self.stop:
            r, _, _ = select.select([self.fd], [], [], 0.05)
            if not r:
                continue
            buf += os.read(self.fd, 65536)
            while b'\n' in buf:
                line, buf = buf.split(b'\n', 1)
                parts = line.decode('utf-8', 'replace').split(' ', 2)
                if len(parts) < 2:
                    continue
                pid = int(parts[0])
                try:
                    fields = json.loads(parts[2]) if len(parts) > 2 else {}
                except ValueError:
                    fields = {}
                rq = fields.get('rq', 0)
                self.count += 1
                if getattr(self, 'delay_fn', None):
                    delay = self.delay_fn(fields)
                else:
                    delay = self.rnd.choice([0, 0, self.rnd.random() * self.max_ms / 1000.0])

                def ack(pid=pid, rq=rq):
                    tmpf = os.path.join(self.dir, 'tmp.%d.%d' % (pid, rq))
                    try:
                        with open(tmpf, 'wb') as f:
                            f.write(b'g')
                        os.rename(tmpf, os.path.join(self.dir, 'ack.%d.%d' % (pid, rq)))
                    except OSError:
                        pass
                if delay > 0:
                    threading.Timer(delay, ack).start()
                else:
                    ack()


class World:
    """the harness as parent jobserver (GNU make's side of the protocol)"""

    def __init__(self, n_tokens, trace, rnd, active=True):
        self.r, self.w = os.pipe()
        self.cr, self.cw = os.pipe()
        os.write(self.w, b't' * n_tokens)
        self.n = n_tokens
        self.trace = trace
        self.rnd = rnd
        self.active = active
        self.stop = False
        self.holding = 0
        self.th = None
        self.dom = 0

    def env(self):
        return {'MAKEFLAGS': ' -j --jobserver-auth=%d,%d --jobserver-fds=%d,%d' % (self.r, self.w, self.r, self.w),
                'REDO_CHEATFDS': '%d,%d' % (self.cr, self.cw)}

    def fds(self):
        return (self.r, self.w, self.cr, self.cw)

    def emit(self, ev, **kw):
        rec = dict(pid=0, ev=ev, dom=self.dom, **kw)
        fd = os.open(self.trace, os.O_WRONLY | os.O_APPEND | os.O_CREAT, 0o644)
        try:
            os.write(fd, (json.dumps(rec) + '\n').encode())
        finally:
            os.close(fd)

    def start(self, dom):
        self.dom = dom
        if not self.active:
            return
        os.set_blocking(self.r, False)

        def run():
            while not self.stop:
                time.sleep(self.rnd.random() * 0.02)
                if self.holding == 0:
                    try:
                        b = os.read(self.r, 1)
                    except BlockingIOError:
                        b = b''
                    if b:
                        self.holding = 1
                        self.emit('WorldTake', n=1)          # taking: logged after the read
                else:
                    self.emit('WorldPut', n=1)               # giving: logged before the write
                    os.write(self.w, b't')
                    self.holding = 0
            if self.holding:
                self.emit('WorldPut', n=1)
                os.write(self.w, b't')
                self.holding = 0
        self.th = threading.Thread(target=run, daemon=True)
        self.th.start()

    def finish(self):
        self.stop = True
        if self.th:
            self.th.join()
        os.set_blocking(self.r, False)
        os.set_blocking(self.cr, False)
        try:
            toks = len(os.read(self.r, 65536))
        except BlockingIOError:
            toks = 0
        try:
            cheats = len(os.read(self.cr, 65536))
        except BlockingIOError:
            cheats = 0
        self.emit('WorldCount', tokens=toks, cheatbytes=cheats)
        for fd in self.fds():
            os.close(fd)
        return toks, cheats


def kill_viewer_of(pid, after_s, give_up_s=20.0):
    """SIGKILL the log viewer (the redo-log child) of the top-level command `pid`, `after_s` seconds after its start"""
    t0 = time.time()
    while time.time() - t0 < give_up_s:
        try:
            kids = open('/proc/%d/task/%d/children' % (pid, pid)).read().split()
        except OSError:
            return False
        for c in kids:
            try:
                with open('/proc/%s/cmdline' % c, 'rb') as f:
                    cl = f.read().split(b'\0')
            except OSError:
                continue
            if os.path.basename(cl[0]) == b'redo-log' and time.time() - t0 >= after_s:
                try:
                    os.kill(int(c), 9)
                    return True
                except OSError:
                    return False
        time.sleep(0.001)
    return False


def run_build(bindir, d, trace, argv, timeout=60, world=None, gate=None, extra_env=None, kill_viewer_after=None):
    """one top-level command; returns dict(rc, stderr, timed_out, pid)"""
    extra = dict(extra_env or {})
    pass_fds = ()
    if world:
        extra.update(world.env())
        pass_fds = world.fds()
    if gate:
        extra.update(gate.env())
    p = subprocess.Popen(argv, cwd=d, env=base_env(bindir, trace, extra), stdin=subprocess.DEVNULL,
                         stdout=subprocess.PIPE, stderr=subprocess.PIPE, start_new_session=True, pass_fds=pass_fds)
    if world:
        world.start(p.pid)
    kv = None
    if kill_viewer_after is not None:
        kv = threading.Thread(target=kill_viewer_of, args=(p.pid, kill_viewer_after), daemon=True)
        kv.start()
    to = False
    try:
        so, se = p.communicate(timeout=timeout)
    except subprocess.TimeoutExpired:
        to = True
        snap = process_snapshot(p.pid)
        try:
            os.killpg(p.pid, 9)
        except ProcessLookupError:
            pass
        so, se = p.communicate()
        se += ('\n[harness] did not terminate within %ds; process/lock snapshot:\n%s' % (timeout, snap)).encode()
    return {'rc': p.returncode, 'stdout': so.decode('utf-8', 'replace'), 'stderr': se.decode('utf-8', 'replace'),
            'timed_out': to, 'pid': p.pid, 'argv': argv}


def process_snapshot(sid):
    out = []
    try:
        out.append(subprocess.run(['ps', '-s', str(sid), '-o', 'pid,ppid,stat,wchan:20,args'], stdout=subprocess.PIPE,
                                  text=True, timeout=5).stdout)
        out.append(open('/proc/locks').read())
    except Exception as ex:       # noqa
        out.append(repr(ex))
    return '\n'.join(out)[-4000:]


def classify(r, expect_ok):
    """problems of one command that need no specification to be called wrong (C09)"""
    probs = []
    se = r['stderr']
    if r['timed_out']:
        probs.append('hang: command did not terminate')
    if r['rc'] == 101 or 'panicked' in se:
        i = se.find('panicked')
        probs.append('panic: ' + se[max(0, i - 80):i + 300].replace('\n', ' | '))
    if 'expected' in se and 'tokens; found' in se:
        i = se.find('expected')
        probs.append('token self-check failed: ' + se[max(0, i - 20):i + 80].replace('\n', ' '))
    if expect_ok and r['rc'] != 0 and not probs:
        probs.append('build whose scripts all succeed exited %s: %s' % (r['rc'], se[-400:].replace('\n', ' | ')))
    if expect_ok is False and r['rc'] == 0:
        probs.append('build with a failing script exited 0')
    return probs
