"""Generate RedoSys behaviours with TLC and replay them on the real code."""
import json
import os
import random
import shutil
import time
from concurrent.futures import ThreadPoolExecutor

import common
import harness
import programs

EXPORT_BODY = r'''
\* one line per maximal user-level history that ends with a command
Export == (Quiet /\ Len(hist) = MaxHist /\ hist[Len(hist)].a \in {"cmd", "query", "crash", "par"})
              => PrintT("@@" \o ToJson(hist))
'''


def write_mc(workdir, modname, prog, j=1, max_hist=4, max_cmds=3, unlocked_bug=False, body='', cfg_tail='',
             selfdep_panics=False):
    consts = programs.prog_constants(prog, j=j, max_hist=max_hist, max_cmds=max_cmds, unlocked_bug=unlocked_bug,
                                     selfdep_panics=selfdep_panics)
    mod, cfg = programs.mc_module(modname, 'RedoSysProps', consts, body=body)
    mod = mod.replace('EXTENDS RedoSysProps, TLCExt', 'EXTENDS RedoSysProps, TLCExt, Json')
    open(os.path.join(workdir, modname + '.tla'), 'w').write(mod)
    open(os.path.join(workdir, modname + '.cfg'), 'w').write(cfg + 'SPECIFICATION Spec\n' + cfg_tail)


def parse_printed(res):
    hs = []
    for line in res.printed:
        if line.startswith('"@@'):
            hs.append(json.loads(json.loads(line)[2:]))
    return hs


def gen_histories(prog, workdir, j=1, max_hist=4, max_cmds=3, invariants=(), workers=8, timeout=900,
                  unlocked_bug=False, properties=(), dump_trace=None):
    """Exhaustive TLC run of the program's history space: checks `invariants` and exports the
    maximal histories.  Returns (TlcResult, histories)."""
    modname = 'MC_' + prog['name'].replace('-', '_')
    tail = 'INVARIANT Export\n' + ''.join('INVARIANT %s\n' % i for i in invariants) \
        + ''.join('PROPERTY %s\n' % p for p in properties)
    write_mc(workdir, modname, prog, j=j, max_hist=max_hist, max_cmds=max_cmds, unlocked_bug=unlocked_bug,
             body=EXPORT_BODY, cfg_tail=tail)
    extra = ['-dumpTrace', 'json', dump_trace] if dump_trace else []
    res = common.run_tlc(modname, modname + '.cfg', workdir, workers=workers, timeout=timeout, extra=extra)
    return res, parse_printed(res)


def group_histories(hists):
    """group specification behaviours by their user-level input"""
    groups = {}
    for h in hists:
        groups.setdefault(harness.history_input(h), []).append(h)
    # drop exact duplicates inside a group
    out = {}
    for k, hs in groups.items():
        seen, uniq = set(), []
        for h in hs:
            js = json.dumps(h, sort_keys=True)
            if js not in seen:
                seen.add(js)
                uniq.append(h)
        out[k] = uniq
    return out


def interesting(inp, min_cmds=2):
    """non-trivial history input: at least min_cmds commands, one of them a build"""
    cmds = [s for s in inp if s[0] in ('cmd', 'query', 'crash', 'par')]
    builds = [s for s in inp if s[0] in ('cmd', 'crash', 'par')]
    return len(builds) >= 1 and (len(cmds) >= min_cmds or any(s[0] == 'par' for s in inp))


def replay_all(prog, groups, bindir, root, nworkers=8, log_mode=None, keep_failed=True, cmd_timeout=60, cats=None,
               pad=0, watch=False, jitter=False, repeat=1, sched=0, trace_dir=None):
    """Replay history groups (list of lists of alternatives) in parallel.
    Returns (n_ok, failures) with failures = list of (alts, report, dir)."""
    os.makedirs(root, exist_ok=True)
    failures = []
    n_ok = 0

    def one(ig):
        i, alts = ig
        d = os.path.join(root, 'h%05d' % i)
        # with sched = n, n of every n+1 runs are executed under controlled scheduling (harness.Serializer), seed = run number
        ss = i if (sched and i % (sched + 1) != 0) else None
        # the hook events of the runs under controlled scheduling are kept for trace validation (every second one)
        tr = os.path.join(trace_dir, 'h%05d.ndjson' % i) if (trace_dir and ss is not None and i % 2 == 1) else None
        if tr:
            os.makedirs(trace_dir, exist_ok=True)
            if os.path.exists(tr):
                os.unlink(tr)
        try:
            ok, rep = harness.replay_group(prog, alts, d, bindir, trace=tr, log_mode=log_mode, cmd_timeout=cmd_timeout, cats=cats,
                                           pad=pad, watch=watch, jitter=jitter and ss is None, kill_seed=i, sched_seed=ss)
        except Exception as ex:      # harness trouble is reported as a failure of that history
            import traceback
            ok, rep = False, [{'diffs': ['harness exception: %r %s' % (ex, traceback.format_exc()[-600:])]}]
        if ok:
            shutil.rmtree(d, ignore_errors=True)
        return i, alts, ok, rep, d

    with ThreadPoolExecutor(max_workers=nworkers) as ex:
        work = [(i * repeat + r, g) for i, g in enumerate(groups) for r in range(repeat)]
        for i, alts, ok, rep, d in ex.map(one, work):
            if ok:
                n_ok += 1
            else:
                failures.append((alts, rep, d))
                if keep_failed:
                    os.makedirs(d, exist_ok=True)
                    with open(os.path.join(d, 'history.json'), 'w') as f:
                        json.dump({'program': prog, 'alternatives': alts, 'report': rep}, f, indent=1, default=list)
    return n_ok, failures


def sample(groups, n, seed):
    """groups: dict input -> alternatives; deterministic sample of n inputs"""
    keys = sorted(groups, key=repr)
    rnd = random.Random(seed)
    rnd.shuffle(keys)
    return [groups[k] for k in keys[:n]]


def projection(step):
    """what must not depend on the schedule: exit status, file contents, which targets were run, and per
    row the flags, failure state, checksum and edge set (C07)"""
    if step['a'] != 'cmd':
        return None
    sn = step['snap']
    rows = {n: (r['gen'], r['ovr'], r['failed'] != -1, json.dumps(r['csum'], sort_keys=True), r['stamp'])
            for n, r in sn['rows'].items()}
    edges = sorted((e['t'], e['s'], e['mode'], e['del']) for e in sn['edges'])
    if step['rc'] != 0 and not step['keep']:
        # without --keep-going the set of targets started before the failure became known is
        # legitimately timing dependent; only the failure itself is schedule independent
        return json.dumps(['failed'])
    return json.dumps([step['rc'], sorted(set(step['ran'])), sn['files'], rows, edges, sorted(sn['tmp'])], sort_keys=True)


def schedule_dependent(groups):
    """inputs whose specification alternatives disagree on the projection; returns list of (input, step index)"""
    bad = []
    for inp, alts in groups.items():
        for i in range(len(alts[0])):
            ps = set(projection(h[i]) for h in alts)
            if len(ps) > 1:
                bad.append((inp, i))
                break
    return bad
