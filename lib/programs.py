"""Program (graph of .do scripts) descriptions shared by the TLA+ model and the harness.

A program is a dict:
  name     : str
  plain    : list of non-.do file names (sources, targets, watched paths)
  rules    : {dofile: [version1, version2, ...]}, version = {target: [op, ...]}
  cands    : {plain name: [dofile, ...]}   candidate .do files, best first
  init     : list of files existing initially
  cmds     : list of (kind, [targets], keep_going)
  user     : files the user may write;  rm: files the user may remove;  doedits: .do files edited
Ops are dicts {op, args, ch, rc}.
"""
from tla import s, seq, sset, fn, rec, val


def ifchange(*a):
    return {'op': 'ifchange', 'args': list(a), 'ch': '', 'rc': 0}


def ifcreate(*a):
    return {'op': 'ifcreate', 'args': list(a), 'ch': '', 'rc': 0}


def always():
    return {'op': 'always', 'args': [], 'ch': '', 'rc': 0}


def stamp():
    return {'op': 'stamp', 'args': [], 'ch': '', 'rc': 0}


def out(ch, *reads, tag=0):
    """tag != 0: the content carries this number instead of the rule version, so that different
    rule versions can produce identical bytes"""
    return {'op': 'out', 'args': list(reads), 'ch': ch, 'rc': tag}


def redo_(*a, ignore=False):
    return {'op': 'redo', 'args': list(a), 'ch': 'ignore' if ignore else '', 'rc': 0}


def touch(f):
    return {'op': 'touch', 'args': [f], 'ch': '', 'rc': 0}


def failif(f, rc):
    return {'op': 'failif', 'args': [f], 'ch': '', 'rc': rc}


def exit_(rc):
    return {'op': 'exit', 'args': [], 'ch': '', 'rc': rc}


def op_tla(o):
    return rec({'op': s(o['op']), 'args': seq([s(a) for a in o['args']]), 'ch': s(o['ch']), 'rc': str(o['rc'])})


def candidates(name):
    """candidate .do files of a project-relative target, best first (paths.rs): in the target's directory the
    specific rule and the default.<ext>.do from the longest extension to the shortest, then default.do, then the
    same defaults in every ancestor directory up to the project top"""
    import posixpath
    d, base = posixpath.split(name)
    pre = (d + '/') if d else ''
    out = [pre + base + '.do']
    defaults = []
    for i, c in enumerate(base):
        if c == '.':
            defaults.append('default' + base[i:] + '.do')
    defaults.append('default.do')
    while True:
        out += [((d + '/') if d else '') + x for x in defaults]
        if not d:
            break
        d = posixpath.dirname(d)
    return out


def complete(p):
    """derive the candidate lists and add never-existing candidate .do files"""
    p = dict(p)
    p['cands'] = {x: candidates(x) for x in p['plain']}
    rules = dict(p['rules'])
    for x in p['plain']:
        for c in p['cands'][x]:
            rules.setdefault(c, [])
    p['rules'] = rules
    return p


def prog_constants(p, j=1, max_hist=4, max_cmds=3, unlocked_bug=False, selfdep_panics=False,
                   max_crash=0, crash_window=False):
    """TLA+ definitions for the constants of RedoSys."""
    plain = p['plain']
    rules = p['rules']
    d = {}
    d['Plain'] = sset([s(x) for x in plain])
    d['DoFiles'] = sset([s(x) for x in rules])
    d['Cands'] = fn([(s(x), seq([s(c) for c in p['cands'].get(x, [])])) for x in plain])
    d['Rules'] = fn([(s(df), seq([fn([(s(t), seq([op_tla(o) for o in ops])) for t, ops in ver.items()])
                                  for ver in vers])) for df, vers in rules.items()])
    d['InitFiles'] = sset([s(x) for x in p['init']])
    d['J'] = str(j)
    d['Cmds'] = sset([rec({'kind': s(c[0]), 'targs': seq([s(t) for t in c[1]]), 'keep': val(bool(c[2])),
                           'j': str(c[3] if len(c) > 3 else 1), 'cwd': s(c[4] if len(c) > 4 else '')})
                      for c in p['cmds']])
    d['Pairs'] = sset(['<<%s, %s>>' % tuple(rec({'kind': s(c[0]), 'targs': seq([s(t) for t in c[1]]), 'keep': val(bool(c[2])),
                                                        'j': str(c[3] if len(c) > 3 else 1), 'cwd': s(c[4] if len(c) > 4 else '')})
                                                   for c in pr) for pr in p.get('pairs', [])])
    d['UserFiles'] = sset([s(x) for x in p.get('user', [])])
    d['RmFiles'] = sset([s(x) for x in p.get('rm', [])])
    d['DoEdits'] = sset([s(x) for x in p.get('doedits', [])])
    d['TmpFiles'] = sset([s(x) for x in p.get('tmpfiles', [])])
    d['LogViewer'] = 'FALSE' if p.get('no_viewer') else 'TRUE'
    d['Alias'] = fn([(s(k), s(v)) for k, v in p.get('alias', {}).items()])
    d['Links'] = fn([(s(k), seq([s(x) for x in v])) for k, v in p.get('links', {}).items()])
    d['NoDir'] = sset([s(x) for x in p.get('nodir', [])])
    d['MaxHist'] = str(max_hist)
    d['MaxCmds'] = str(max_cmds)
    d['UnlockedBug'] = 'TRUE' if unlocked_bug else 'FALSE'
    d['SelfDepPanics'] = 'TRUE' if selfdep_panics else 'FALSE'
    d['KeepCsum'] = 'TRUE' if p.get('keep_csum', False) else 'FALSE'
    d['OverrideStale'] = 'TRUE' if p.get('override_stale', False) else 'FALSE'
    d['NullStampPanics'] = 'TRUE' if p.get('null_stamp_panics', False) else 'FALSE'
    d['MaxCrash'] = str(p.get('max_crash', max_crash))
    d['CrashWindow'] = 'TRUE' if p.get('crash_window', crash_window) else 'FALSE'
    d['StampWindow'] = 'TRUE' if p.get('stamp_window', False) else 'FALSE'
    d['StaleTmpDirBug'] = 'TRUE' if p.get('stale_tmpdir_bug', False) else 'FALSE'
    # SQLite's default BINARY collation orders by bytes
    d['NameSeq'] = seq([s(x) for x in sorted(list(plain) + list(rules), key=lambda x: x.encode())])
    return d


def mc_module(name, base, consts, body=''):
    """An MC module extending `base` that defines c_<Const> operators, plus its cfg text."""
    lines = ['---- MODULE %s ----' % name, 'EXTENDS %s, TLCExt' % base, '']
    cfg = []
    for k, v in consts.items():
        lines.append('c_%s == %s' % (k, v))
        cfg.append('CONSTANT %s <- c_%s' % (k, k))
    lines.append('')
    lines.append(body)
    lines.append('====')
    return '\n'.join(lines) + '\n', '\n'.join(cfg) + '\n'


# --------------------------------------------------------------------------------------
# program families
# --------------------------------------------------------------------------------------
def chain():
    return {
        'name': 'chain',
        'plain': ['s', 'a', 'b'],
        'rules': {'a.do': [{'a': [ifchange('b'), out('stdout', 'b')]},
                           {'a': [ifchange('b', 's'), out('file', 'b', 's')]}],
                  'b.do': [{'b': [ifchange('s'), out('stdout', 's')]}]},
        'cands': {'a': ['a.do'], 'b': ['b.do']},
        'init': ['s', 'a.do', 'b.do'],
        'cmds': [('ifchange', ['a'], False), ('redo', ['a'], False), ('ifchange', ['b'], False)],
        'user': ['s'], 'rm': ['a', 'b'], 'doedits': ['a.do'],
    }


def diamond():
    return {
        'name': 'diamond',
        'plain': ['s', 't', 'l', 'r', 'top'],
        'rules': {'top.do': [{'top': [ifchange('l', 'r'), out('stdout', 'l', 'r')]}],
                  'l.do': [{'l': [ifchange('s'), out('stdout', 's')]}],
                  'r.do': [{'r': [ifchange('s', 't'), out('file', 's', 't')]}]},
        'cands': {'top': ['top.do'], 'l': ['l.do'], 'r': ['r.do']},
        'init': ['s', 't', 'top.do', 'l.do', 'r.do'],
        'cmds': [('ifchange', ['top'], False), ('ifchange', ['l', 'r'], False)],
        'user': ['s', 't'], 'rm': ['l', 'top'], 'doedits': [],
    }


def stamped(depth=1, top_kind='plain'):
    """top -> mid (checksummed, reads s but ignores u) -> s, u"""
    mid = [ifchange('s', 'u'), out('stdout', 's'), stamp()]
    rules = {'mid.do': [{'mid': mid}]}
    plain = ['s', 'u', 'mid', 'top']
    cands = {'mid': ['mid.do'], 'top': ['top.do']}
    top_ops = [ifchange('mid'), out('stdout', 'mid')]
    if top_kind == 'always':
        top_ops = [always()] + top_ops
    rules['top.do'] = [{'top': top_ops}]
    cmds = [('ifchange', ['top'], False), ('redo', ['mid'], False)]
    if depth == 2:
        plain.append('roof')
        cands['roof'] = ['roof.do']
        rules['roof.do'] = [{'roof': [ifchange('top'), out('stdout', 'top')]}]
        cmds = [('ifchange', ['roof'], False), ('ifchange', ['top'], False)]
    return {
        'name': 'stamped%d%s' % (depth, top_kind),
        'plain': plain, 'rules': rules, 'cands': cands,
        'init': ['s', 'u'] + list(rules),
        'cmds': cmds,
        'user': ['s', 'u'], 'rm': ['mid'], 'doedits': [],
    }


def stamped_mid2():
    """roof -> top (checksummed) -> mid (checksummed) -> s,u : nested NeedTargets"""
    return {
        'name': 'stamped_nested',
        'plain': ['s', 'u', 'mid', 'top', 'roof'],
        'rules': {'mid.do': [{'mid': [ifchange('s', 'u'), out('stdout', 's'), stamp()]}],
                  'top.do': [{'top': [ifchange('mid'), out('stdout', 'mid'), stamp()]}],
                  'roof.do': [{'roof': [ifchange('top'), out('stdout', 'top')]}]},
        'cands': {'mid': ['mid.do'], 'top': ['top.do'], 'roof': ['roof.do']},
        'init': ['s', 'u', 'mid.do', 'top.do', 'roof.do'],
        'cmds': [('ifchange', ['roof'], False)],
        'user': ['s', 'u'], 'rm': ['mid'], 'doedits': [],
    }


def ifcreate_prog():
    """t watches x: redo-ifchange x if it exists, else redo-ifcreate x (two rule versions
    cannot express the shell `if`, so the idiom is the `watch` of the out op: the script
    reads x if present).  t also depends on s."""
    return {
        'name': 'ifcreate',
        'plain': ['s', 'x', 't'],
        'rules': {'t.do': [{'t': [ifchange('s'), {'op': 'watch', 'args': ['x'], 'ch': '', 'rc': 0},
                                  out('stdout', 's', 'x')]}]},
        'cands': {'t': ['t.do']},
        'init': ['s', 't.do'],
        'cmds': [('ifchange', ['t'], False)],
        'user': ['s', 'x'], 'rm': ['x', 't'], 'doedits': [],
    }


def always_prog():
    return {
        'name': 'always',
        'plain': ['s', 'al', 'p', 'q', 'top'],
        'rules': {'al.do': [{'al': [always(), ifchange('s'), out('stdout', 's')]}],
                  'p.do': [{'p': [ifchange('al'), out('stdout', 'al')]}],
                  'q.do': [{'q': [ifchange('al'), out('file', 'al')]}],
                  'top.do': [{'top': [ifchange('p', 'q'), out('stdout', 'p', 'q')]}]},
        'cands': {'al': ['al.do'], 'p': ['p.do'], 'q': ['q.do'], 'top': ['top.do']},
        'init': ['s', 'al.do', 'p.do', 'q.do', 'top.do'],
        'cmds': [('ifchange', ['top'], False), ('ifchange', ['p'], False)],
        'user': ['s'], 'rm': ['al'], 'doedits': [],
    }


def always2():
    """two redo-always targets: t1 requested by two dependents (the second request finds //ALWAYS already checked in this
    run), t2 requested after that by a third"""
    return {
        'name': 'always2',
        'plain': ['s', 't1', 't2', 'a', 'b', 'c', 'all'],
        'rules': {'t1.do': [{'t1': [always(), out('stdout', 's')]}],
                  't2.do': [{'t2': [always(), out('stdout', 's')]}],
                  'a.do': [{'a': [ifchange('t1'), out('stdout', 't1')]}],
                  'b.do': [{'b': [ifchange('t1'), out('file', 't1')]}],
                  'c.do': [{'c': [ifchange('t2'), out('stdout', 't2')]}],
                  'all.do': [{'all': [ifchange('a', 'b', 'c'), out('stdout', 'a', 'b', 'c')]}]},
        'init': ['s', 't1.do', 't2.do', 'a.do', 'b.do', 'c.do', 'all.do'],
        'cmds': [('ifchange', ['all'], False)],
        'user': ['s'], 'rm': [], 'doedits': [],
        'bounds': (3, 3),
    }


def default_prog():
    """x.o built by default.o.do or, when added, x.o.do; default.do as last resort"""
    return {
        'name': 'defaults',
        'plain': ['x.c', 'x.o', 'y'],
        'rules': {'x.o.do': [{'x.o': [ifchange('x.c'), out('stdout', 'x.c')]}],
                  'default.o.do': [{'x.o': [ifchange('x.c'), out('file', 'x.c')]}],
                  'default.do': [{'x.o': [out('stdout')], 'y': [ifchange('x.o'), out('stdout', 'x.o')]}]},
        'cands': {'x.o': ['x.o.do', 'default.o.do', 'default.do'], 'y': ['y.do', 'default.do'],
                  'x.c': ['x.c.do', 'default.c.do', 'default.do']},
        'init': ['x.c', 'default.o.do', 'default.do'],
        'cmds': [('ifchange', ['y'], False), ('ifchange', ['x.o'], False)],
        'user': ['x.c', 'x.o'], 'rm': ['x.o'], 'doedits': ['x.o.do', 'default.o.do'],
    }


def failing():
    return {
        'name': 'failing',
        'plain': ['s', 'bad', 'ok', 'top'],
        'rules': {'bad.do': [{'bad': [ifchange('s'), out('stdout', 's'), exit_(5)]},
                             {'bad': [ifchange('s'), out('stdout', 's')]}],
                  'ok.do': [{'ok': [ifchange('s'), out('stdout', 's')]}],
                  'top.do': [{'top': [ifchange('bad', 'ok'), out('stdout', 'bad', 'ok')]}]},
        'cands': {'bad': ['bad.do'], 'ok': ['ok.do'], 'top': ['top.do']},
        'init': ['s', 'bad.do', 'ok.do', 'top.do'],
        'cmds': [('ifchange', ['top'], False), ('ifchange', ['bad', 'ok'], True), ('ifchange', ['bad', 'ok'], False)],
        'user': ['s'], 'rm': [], 'doedits': ['bad.do'],
    }


def roles():
    """a file that changes role: target built by default rule, hand-written, removed"""
    return {
        'name': 'roles',
        'plain': ['s', 'g', 'h'],
        'rules': {'g.do': [{'g': [ifchange('s'), out('stdout', 's')]}],
                  'h.do': [{'h': [ifchange('g'), out('stdout', 'g')]}]},
        'cands': {'g': ['g.do'], 'h': ['h.do']},
        'init': ['s', 'g.do', 'h.do'],
        'cmds': [('ifchange', ['h'], False), ('redo', ['g'], False), ('ifchange', ['g'], False)],
        'user': ['s', 'g'], 'rm': ['g'], 'doedits': ['g.do'],
    }


def outputs(name, versions, user_t=True):
    """one target t (depends on s) whose rule versions exercise the output channels"""
    vers = []
    for spec in versions:
        ops = [ifchange('s')]
        for ch in spec[0].split('+'):
            if ch != 'nothing':
                ops.append(out(ch, 's'))
        if spec[1] != 0:
            ops.append(exit_(spec[1]))
        vers.append({'t': ops})
    return {
        'name': name,
        'plain': ['s', 't'],
        'rules': {'t.do': vers},
        'init': ['s', 't.do'],
        'cmds': [('ifchange', ['t'], False), ('redo', ['t'], False)],
        'user': ['s'] + (['t'] if user_t else []), 'rm': ['t'], 'doedits': ['t.do'],
    }


def samestem():
    """targets that differ only in their last extension (hello / hello.o, rep.html / rep.txt): each has its own temporary
    output file; `hello` has already written $3 when it asks for hello.o, the two rep.* are built side by side"""
    return {
        'name': 'samestem',
        'plain': ['s', 'hello', 'hello.o', 'rep.html', 'rep.txt'],
        'rules': {'hello.o.do': [{'hello.o': [ifchange('s'), out('file', 's')]}],
                  'hello.do': [{'hello': [out('file', 's'), ifchange('hello.o')]}],
                  'rep.html.do': [{'rep.html': [ifchange('s'), out('file', 's')]}],
                  'rep.txt.do': [{'rep.txt': [ifchange('s'), out('file', 's')]}]},
        'init': ['s', 'hello.o.do', 'hello.do', 'rep.html.do', 'rep.txt.do'],
        'cmds': [('ifchange', ['hello'], False), ('redo', ['rep.html', 'rep.txt'], False, 2)],
        'user': ['s'], 'rm': [], 'doedits': [], 'bounds': (3, 2), 'sample_n': 60,
    }


def output_family():
    return [complete(p) for p in [
        samestem(),
        outputs('outA', [('stdout', 0), ('both', 0), ('file', 0)]),
        outputs('outB', [('file', 0), ('direct', 0), ('stdout', 0)]),
        outputs('outC', [('stdout', 0), ('stdout', 3), ('nothing', 0)]),
        outputs('outL', [('file', 0), ('filedel', 0), ('filedel+stdout', 0)], user_t=False),
        outputs('outM', [('stdout', 0), ('filedir', 3), ('file', 0)], user_t=False),
        outputs('outD', [('direct', 0), ('file', 7), ('file', 0)]),
        outputs('outE', [('nothing', 0), ('stdout', -9), ('stdout', 0)]),
        outputs('outF', [('file', 0), ('direct', 4), ('nothing', 3)]),
        outputs('outG', [('both', 2), ('file+stdout', 0), ('stdout', 0)], user_t=False),
        outputs('outH', [('stdout', 0), ('directold', 0), ('directold+stdout', 0)], user_t=False),
        outputs('outI', [('file', 0), ('directold+file', 0), ('stdout', 0)], user_t=False),
        dict(outputs('outJ', [('stdout', 0), ('nothing', 0), ('file', 0)], user_t=False), tmpfiles=['t'], doedits=['t.do'], user=[], rm=[]),
        dict(outputs('outK', [('file', 0), ('stdout', 4), ('stdout', 0)], user_t=False), tmpfiles=['t'], user=['s'], rm=[]),
        # directories: $3 made a directory holding the output (installed by rename when the target is absent; rename
        # onto an existing directory or of a directory onto a file fails: 209, nothing installed, $3 removed), and the
        # idiom for directory targets (rm -rf $1; mkdir $1)
        outputs('outN', [('dirout', 0), ('file', 0), ('stdout', 0)], user_t=False),
        outputs('outO', [('file', 0), ('dirout', 0), ('dirdirect', 0)], user_t=False),
        outputs('outP', [('dirdirect', 0), ('dirdirect+stdout', 0), ('dirout', 3)], user_t=False),
    ]]


# narrow alphabets, deeper histories ------------------------------------------------------
def override2():
    """hand-edit a generated target repeatedly between builds"""
    return {
        'name': 'override2',
        'plain': ['s', 'g', 'h'],
        'rules': {'g.do': [{'g': [ifchange('s'), out('stdout', 's')]}],
                  'h.do': [{'h': [ifchange('g'), out('stdout', 'g')]}]},
        'init': ['s', 'g.do', 'h.do'],
        'cmds': [('ifchange', ['h'], False), ('redo', ['g'], False)],
        'user': ['g'], 'rm': ['g'], 'doedits': [],
        'bounds': (6, 3),
    }


def override3():
    """a generated target edited by hand twice (and more) with builds and out-of-date queries in between: the record of an
    overridden file must follow every hand edit (fix 70d1dd5), else its dependents are rebuilt by every run"""
    return {
        'name': 'override3',
        'plain': ['s', 'g', 'h'],
        'rules': {'g.do': [{'g': [ifchange('s'), out('stdout', 's')]}],
                  'h.do': [{'h': [ifchange('g'), out('stdout', 'g')]}]},
        'init': ['s', 'g.do', 'h.do'],
        'cmds': [('ifchange', ['h'], False), ('ood', [], False)],
        'user': ['g'], 'rm': [], 'doedits': [],
        'bounds': (7, 5),
    }


def override_rm_q():
    """a generated target edited by hand (override), then removed (the documented way of handing it back to redo), with the
    queries asked before the next build: the vanished overridden file is a target that is out of date, not a source"""
    return {
        'name': 'override_rm_q',
        'plain': ['s', 'g', 'h'],
        'rules': {'g.do': [{'g': [ifchange('s'), out('stdout', 's')]}],
                  'h.do': [{'h': [ifchange('g'), out('stdout', 'g')]}]},
        'init': ['s', 'g.do', 'h.do'],
        'cmds': [('ifchange', ['h'], False), ('targets', [], False), ('sources', [], False)],
        'user': ['g'], 'rm': ['g'], 'doedits': [],
        'bounds': (5, 3), 'sample_n': 400,
    }


def stamp_override():
    """a checksummed target edited by hand (its dependent is rebuilt from the hand-made content), then removed and regenerated
    with the content it had before: the checksum recorded before the hand edit must not make that look like 'unchanged'"""
    return {
        'name': 'stamp_override',
        'plain': ['s', 'mid', 'top'],
        'rules': {'mid.do': [{'mid': [ifchange('s'), out('stdout', 's'), stamp()]}],
                  'top.do': [{'top': [ifchange('mid'), out('stdout', 'mid')]}]},
        'init': ['s', 'mid.do', 'top.do'],
        'cmds': [('ifchange', ['top'], False)],
        'user': ['mid'], 'rm': ['mid'], 'doedits': [],
        'bounds': (5, 3),
    }


def stamp_static():
    """as stamp_override, but the checksummed target loses its rule for a while (it becomes a static source the user may edit)
    and gets it back"""
    p = stamp_override()
    p['name'] = 'stamp_static'
    p['doedits'] = ['mid.do']
    p['bounds'] = (7, 3)
    p['fixed_bounds'] = True        # (already the deepest history of the family)
    return p


def stamp_layers():
    """two checksummed layers under two plain ones: r2 -> r1 -> top (checksummed, constant content) -> mid (checksummed) -> s, u.
    After an edit of s the uncertainty about mid is resolved out of band, but the re-decision of r2 then meets the next
    uncertain layer (top) with out-of-band builds switched off (REDO_NO_OOB) and runs r2's script although r1 turns out
    unchanged: a known finding (C02 / C03), kept as a program so that everything else about it stays checked"""
    return {
        'name': 'stamp_layers',
        'plain': ['s', 'u', 'mid', 'top', 'r1', 'r2'],
        'rules': {'mid.do': [{'mid': [ifchange('s', 'u'), out('stdout', 's'), stamp()]}],
                  'top.do': [{'top': [ifchange('mid'), out('stdout', tag=7), stamp()]}],
                  'r1.do': [{'r1': [ifchange('top'), out('stdout', 'top')]}],
                  'r2.do': [{'r2': [ifchange('r1'), out('stdout', 'r1')]}]},
        'init': ['s', 'u', 'mid.do', 'top.do', 'r1.do', 'r2.do'],
        'cmds': [('ifchange', ['r2'], False)],
        'user': ['s', 'u'], 'rm': [], 'doedits': [],
        'bounds': (4, 3),
    }


def stamp_toggle():
    """a target that is checksummed, then plain, then checksummed again with the old content"""
    return {
        'name': 'stamp_toggle',
        'plain': ['s', 'tg', 'top'],
        'rules': {'tg.do': [{'tg': [ifchange('s'), out('stdout', tag=71), stamp()]},
                            {'tg': [ifchange('s'), out('stdout', tag=72)]},
                            {'tg': [ifchange('s'), out('stdout', tag=71), stamp()]},
                            {'tg': [ifchange('s'), out('stdout', tag=72), stamp()]}],
                  'top.do': [{'top': [ifchange('tg'), out('stdout', 'tg')]}]},
        'init': ['s', 'tg.do', 'top.do'],
        'cmds': [('ifchange', ['top'], False)],
        'user': [], 'rm': [], 'doedits': ['tg.do'],
        'bounds': (7, 4),
    }


def stamped_deep():
    """plain -> checksummed -> plain -> checksummed, the checksummed ones rebuilt in every run"""
    return {
        'name': 'stamped_deep',
        'plain': ['s', 'ver', 'lib', 'mid', 'top'],
        'rules': {'ver.do': [{'ver': [always(), out('stdout', tag=5), stamp()]}],
                  'lib.do': [{'lib': [ifchange('ver', 's'), out('stdout', 'ver', 's')]}],
                  'mid.do': [{'mid': [always(), ifchange('lib'), out('stdout', 'lib'), stamp()]}],
                  'top.do': [{'top': [ifchange('mid'), out('stdout', 'mid')]}]},
        'init': ['s', 'ver.do', 'lib.do', 'mid.do', 'top.do'],
        'cmds': [('ifchange', ['top'], False), ('ifchange', ['lib'], False)],
        'user': ['s'], 'rm': [], 'doedits': [],
        'bounds': (4, 4),
    }


def stamp_diamond():
    """a checksummed target under two plain intermediates of one top (a diamond over the checksummed target): both paths are in
    one dirtiness walk, the uncertain verdict is met twice; s is read by gen (visible edit), u is declared and ignored"""
    return {
        'name': 'stamp_diamond',
        'plain': ['s', 'u', 'gen', 'm1', 'm2', 'top'],
        'rules': {'gen.do': [{'gen': [ifchange('s', 'u'), out('stdout', 's'), stamp()]}],
                  'm1.do': [{'m1': [ifchange('gen'), out('stdout', 'gen')]}],
                  'm2.do': [{'m2': [ifchange('gen'), out('stdout', 'gen')]}],
                  'top.do': [{'top': [ifchange('m1', 'm2'), out('stdout', 'm1', 'm2')]}]},
        'init': ['s', 'u', 'gen.do', 'm1.do', 'm2.do', 'top.do'],
        'cmds': [('ifchange', ['top'], False), ('ifchange', ['m2', 'm1'], False)],
        'user': ['s', 'u'], 'rm': [], 'doedits': [],
        'bounds': (5, 3),
    }


def stamp_chain2():
    """two checksummed targets in a row under a plain top: mid -> low, both redo-stamp; low reads s and ignores u, so an edit of
    u rebuilds low with the same checksum and nothing above it may run"""
    return {
        'name': 'stamp_chain2',
        'plain': ['s', 'u', 'low', 'mid', 'top'],
        'rules': {'low.do': [{'low': [ifchange('s', 'u'), out('stdout', 's'), stamp()]}],
                  'mid.do': [{'mid': [ifchange('low'), out('stdout', 'low'), stamp()]}],
                  'top.do': [{'top': [ifchange('mid'), out('stdout', 'mid')]}]},
        'init': ['s', 'u', 'low.do', 'mid.do', 'top.do'],
        'cmds': [('ifchange', ['top'], False), ('ifchange', ['mid'], False)],
        'user': ['s', 'u'], 'rm': [], 'doedits': [],
        'bounds': (5, 3),
    }


def ifcreate_deep():
    """the watched path exists at first, is deleted and re-created; a parent on top"""
    p = ifcreate_prog()
    p['name'] = 'ifcreate_deep'
    p['plain'] = ['s', 'x', 't', 'par']
    p['rules'] = dict(p['rules'])
    p['rules']['par.do'] = [{'par': [ifchange('t'), out('stdout', 't')]}]
    p['init'] = ['s', 'x', 't.do', 'par.do']
    p['cmds'] = [('ifchange', ['par'], False)]
    p['user'] = ['x']
    p['rm'] = ['x']
    p['bounds'] = (6, 4)
    return p


def do_recreate():
    """specific .do removed (default.do takes over) and re-created"""
    return {
        'name': 'do_recreate',
        'plain': ['s', 'z'],
        'rules': {'z.do': [{'z': [ifchange('s'), out('stdout', 's')]}],
                  'default.do': [{'z': [ifchange('s'), out('file', 's')]}]},
        'init': ['s', 'z.do', 'default.do'],
        'cmds': [('ifchange', ['z'], False)],
        'user': [], 'rm': [], 'doedits': ['z.do'],
        'bounds': (6, 4),
    }


def autodir():
    """a target whose directory is made by its own script (the rule is default.do one level up): the candidates inside the
    directory that does not exist yet (sub/t.do, sub/default.do) are dependencies like any other missing candidate - creating
    one later rebuilds the target with it"""
    mk = {'op': 'mkdirp', 'args': [], 'ch': '', 'rc': 0}
    return {
        'name': 'autodir',
        'plain': ['s', 'sub/t'],
        'rules': {'default.do': [{'sub/t': [mk, ifchange('s'), out('stdout', 's')]}],
                  'sub/t.do': [{'sub/t': [ifchange('s'), out('stdout', 's')]}],
                  'sub/default.do': [{'sub/t': [ifchange('s'), out('file', 's')]}]},
        'init': ['s', 'default.do'],
        'cmds': [('ifchange', ['sub/t'], False)],
        'user': [], 'rm': [], 'doedits': ['sub/t.do', 'sub/default.do'],
        'bounds': (5, 3),
    }


def fail_diamond():
    """two requesters of one failing target, plus an independent one"""
    return {
        'name': 'fail_diamond',
        'plain': ['s', 'A', 'P', 'Q', 'R'],
        'rules': {'A.do': [{'A': [ifchange('s'), exit_(3)]}, {'A': [ifchange('s'), out('stdout', 's')]}],
                  'P.do': [{'P': [ifchange('A'), out('stdout', 'A')]}],
                  'Q.do': [{'Q': [ifchange('A'), out('stdout', 'A')]}],
                  'R.do': [{'R': [ifchange('s'), out('stdout', 's')]}]},
        'init': ['s', 'A.do', 'P.do', 'Q.do', 'R.do'],
        'cmds': [('ifchange', ['P', 'Q', 'R'], True), ('ifchange', ['P', 'Q', 'R'], False), ('redo', ['Q', 'P'], True)],
        'user': [], 'rm': [], 'doedits': ['A.do'],
        'bounds': (4, 3),
    }


def fan_shared():
    """one regenerated file with three dependents requested on one command line (the per-run "already checked" memo
    is consulted for the second and third dependent)"""
    return {
        'name': 'fan_shared',
        'plain': ['s', 'd', 'p1', 'p2', 'p3'],
        'rules': {'d.do': [{'d': [ifchange('s'), out('stdout', 's')]}],
                  'p1.do': [{'p1': [ifchange('d'), out('stdout', 'd')]}],
                  'p2.do': [{'p2': [ifchange('d'), out('file', 'd')]}],
                  'p3.do': [{'p3': [ifchange('d'), out('stdout', 'd')]}]},
        'init': ['s', 'd.do', 'p1.do', 'p2.do', 'p3.do'],
        'cmds': [('ifchange', ['p1', 'p2', 'p3'], False), ('redo', ['d'], False), ('ifchange', ['p3', 'p1'], False)],
        'user': ['s'], 'rm': [], 'doedits': [],
        'bounds': (5, 4),
    }


def fail_memo():
    """a target that is checked clean, then fails a forced rebuild, then is needed by another dependent, all inside one
    run (one script calling redo-ifchange, redo ... || true, redo-ifchange)"""
    return {
        'name': 'fail_memo',
        'plain': ['s', 's2', 'x', 'a', 'b', 'all', 'trip'],
        'rules': {'x.do': [{'x': [ifchange('s'), failif('trip', 7), out('stdout', 's')]}],
                  'a.do': [{'a': [ifchange('x', 's2'), out('stdout', 'x', 's2')]}],
                  'b.do': [{'b': [ifchange('x'), out('file', 'x')]}],
                  'all.do': [{'all': [ifchange('a', 'b'), out('stdout', 'a', 'b')]},
                             {'all': [ifchange('a'), touch('trip'), redo_('x', ignore=True), ifchange('b'), out('stdout', 'a', 'b')]}]},
        'init': ['s', 's2', 'x.do', 'a.do', 'b.do', 'all.do'],
        'cmds': [('ifchange', ['all'], False)],
        'user': ['s2'], 'rm': ['trip'], 'doedits': ['all.do'],
        'bounds': (5, 3),
    }


def fail_kinds():
    """ways of failing and what they leave behind: a rule that writes $1 directly and then fails (206 on top of its own
    status; the half-made file stays and must not be taken for a source by the next run), one that fails after creating $3,
    one that fails after writing stdout; all repaired in version 2"""
    return {
        'name': 'fail_kinds',
        'plain': ['s', 'xd', 'xf', 'xs', 'top'],
        'rules': {'xd.do': [{'xd': [ifchange('s'), out('direct', 's'), exit_(3)]}, {'xd': [ifchange('s'), out('stdout', 's')]}],
                  'xf.do': [{'xf': [ifchange('s'), out('file', 's'), exit_(4)]}, {'xf': [ifchange('s'), out('file', 's')]}],
                  'xs.do': [{'xs': [ifchange('s'), out('stdout', 's'), exit_(5)]}, {'xs': [ifchange('s'), out('stdout', 's')]}],
                  'top.do': [{'top': [ifchange('xd', 'xf', 'xs'), out('stdout', 'xd', 'xf', 'xs')]}]},
        'init': ['s', 'xd.do', 'xf.do', 'xs.do', 'top.do'],
        'cmds': [('ifchange', ['top'], False), ('ifchange', ['xd', 'xf', 'xs'], True)],
        'user': [], 'rm': [], 'doedits': ['xd.do', 'xf.do'],
        'bounds': (4, 3),
    }


def nodir_prog():
    """a target whose directory does not exist, built by the top-level default.do: output on stdout cannot be installed
    (internal build-job error 209), output through $3 makes the script itself fail; the failure must be remembered"""
    return {
        'name': 'nodir',
        'plain': ['s', 'gone/x', 'top'],
        'rules': {'default.do': [{'gone/x': [ifchange('s'), out('stdout', 's')],
                                  'top': [ifchange('gone/x'), out('stdout', 'gone/x')]},
                                 {'gone/x': [ifchange('s'), out('stdout', 's'), exit_(0)],
                                  'top': [ifchange('s'), out('stdout', 's')]}]},
        'init': ['s', 'default.do'],
        'cmds': [('ifchange', ['top'], False), ('ifchange', ['gone/x'], False), ('redo', ['top', 'gone/x'], True)],
        'user': ['s'], 'rm': [], 'doedits': ['default.do'], 'nodir': ['gone/x'],
        'bounds': (4, 3),
    }


def subdirs():
    """targets in a subdirectory: a specific rule beside the target that refers to ../s, the top-level default.do
    building into the subdirectory, and a sub/default.do that can be added (takes over) and removed again"""
    return {
        'name': 'subdirs',
        'plain': ['s', 'sub/x', 'sub/y', 'top'],
        'rules': {'sub/x.do': [{'sub/x': [ifchange('s'), out('stdout', 's')]}],
                  'default.do': [{'sub/y': [ifchange('sub/x'), out('file', 'sub/x')],
                                  'top': [ifchange('sub/y', 'sub/x'), out('stdout', 'sub/y', 'sub/x')]}],
                  'sub/default.do': [{'sub/y': [ifchange('sub/x', 's'), out('stdout', 'sub/x', 's')]}]},
        'init': ['s', 'sub/x.do', 'default.do'],
        'cmds': [('ifchange', ['top'], False), ('ifchange', ['sub/y'], False)],
        'user': ['s'], 'rm': ['sub/x'], 'doedits': ['sub/default.do'],
        'bounds': (5, 3),
    }


def alias_prog():
    """one file, several spellings - on one command line, on successive command lines and inside a script: one record,
    one lock, one build per run (C15)"""
    return {
        'name': 'alias',
        'plain': ['s', 'a', 'b'],
        'alias': {'./a': 'a', 'd/../a': 'a', './b': 'b', 'd/../b': 'b', './/b': 'b'},
        'mkdirs': ['d'],
        'rules': {'a.do': [{'a': [ifchange('./b', 'b'), out('stdout', 'b')]}],
                  'b.do': [{'b': [ifchange('s'), out('stdout', 's')]}]},
        'init': ['s', 'a.do', 'b.do'],
        'cmds': [('ifchange', ['a', './a'], False), ('redo', ['./a', 'd/../a'], False, 2), ('ifchange', ['d/../b', './/b', 'a'], False)],
        'user': ['s'], 'rm': ['b'], 'doedits': [],
        'bounds': (4, 3),
    }


def subdirs_cwd():
    """commands and queries started in a subdirectory of the project: names are relative to it, the project is the
    nearest ancestor with a .redo directory (created by the first command, which runs at the top)"""
    p = subdirs()
    p['name'] = 'subdirs_cwd'
    p['alias'] = {'sub|x': 'sub/x', 'sub|y': 'sub/y', 'sub|../top': 'top', 'sub|./x': 'sub/x', 'sub|../sub/y': 'sub/y'}
    p['cmds'] = [('ifchange', ['top'], False, 1, ''), ('ifchange', ['y', '../top'], False, 1, 'sub'),
                 ('redo', ['./x', '../sub/y'], False, 1, 'sub'), ('targets', [], False, 1, 'sub'), ('ood', [], False, 1, 'sub')]
    p['doedits'] = []
    p['bounds'] = (4, 3)
    return p


def symlink_prog():
    """a source that is a symbolic link: editing what it points to, and pointing it elsewhere, must rebuild its
    consumers (the stamp of a link is the link's own stamp plus the stamp of what it points to)"""
    return {
        'name': 'symlink',
        'plain': ['s2', 's3', 'ls', 't', 'top'],
        'links': {'ls': ['s2', 's3']},
        'rules': {'t.do': [{'t': [ifchange('ls'), out('stdout', 'ls')]}],
                  'top.do': [{'top': [ifchange('t'), out('file', 't')]}]},
        'init': ['s2', 's3', 'ls', 't.do', 'top.do'],
        'cmds': [('ifchange', ['top'], False), ('ifchange', ['t'], False)],
        'user': ['s2', 's3'], 'rm': ['t'], 'doedits': [],
        'bounds': (5, 3),
    }


def ifcreate_link():
    """the watched path is a symbolic link that dangles at first: it does not exist for redo-ifcreate, [ -e ] and the
    created-mode edge until what it points to is created (lstat finds the link itself all the time)"""
    return {
        'name': 'ifcreate_link',
        'plain': ['s', 'px', 'x', 't'],
        'links': {'x': ['px']},
        'rules': {'t.do': [{'t': [ifchange('s'), {'op': 'watch', 'args': ['x'], 'ch': '', 'rc': 0}, out('stdout', 's', 'x')]}]},
        'init': ['s', 'x', 't.do'],
        'cmds': [('ifchange', ['t'], False)],
        'user': ['px'], 'rm': ['px'], 'doedits': [],
        'bounds': (6, 4),
    }


def symlink_stamped():
    """a checksummed target that reads through a symbolic link, under a plain dependent"""
    return {
        'name': 'symlink_stamped',
        'plain': ['s2', 's3', 'ls', 'mid', 'top'],
        'links': {'ls': ['s2', 's3']},
        'rules': {'mid.do': [{'mid': [ifchange('ls'), out('stdout', tag=9), stamp()]}],
                  'top.do': [{'top': [ifchange('mid', 'ls'), out('stdout', 'mid', 'ls')]}]},
        'init': ['s2', 's3', 'ls', 'mid.do', 'top.do'],
        'cmds': [('ifchange', ['top'], False)],
        'user': ['s2'], 'rm': [], 'doedits': [],
        'bounds': (5, 3),
    }


# parallel builds (redo -jN) ------------------------------------------------------------------
def par_diamond(j=2):
    return {
        'name': 'par_diamond%d' % j,
        'plain': ['s', 'sh', 'l', 'r', 'top'],
        'rules': {'top.do': [{'top': [ifchange('l', 'r'), out('stdout', 'l', 'r')]}],
                  'l.do': [{'l': [ifchange('sh', 's'), out('stdout', 'sh', 's')]}],
                  'r.do': [{'r': [ifchange('sh'), out('file', 'sh')]}],
                  'sh.do': [{'sh': [ifchange('s'), out('stdout', 's')]}]},
        'init': ['s', 'top.do', 'l.do', 'r.do', 'sh.do'],
        'cmds': [('redo', ['top'], False, j), ('redo', ['l', 'r'], False, j), ('ifchange', ['top'], False, 1)],
        'user': ['s'], 'rm': ['sh'], 'doedits': [],
        'bounds': (3, 2),
    }


def par_fan(j=3):
    return {
        'name': 'par_fan%d' % j,
        'plain': ['s', 'a', 'b', 'c'],
        'rules': {'a.do': [{'a': [ifchange('s'), out('stdout', 's')]}],
                  'b.do': [{'b': [ifchange('s'), out('file', 's')]}],
                  'c.do': [{'c': [ifchange('a'), out('stdout', 'a')]}]},
        'init': ['s', 'a.do', 'b.do', 'c.do'],
        'cmds': [('redo', ['a', 'b', 'c'], False, j), ('redo', ['c', 'a'], False, 2)],
        'user': ['s'], 'rm': [], 'doedits': [],
        'bounds': (3, 2),
    }


def par_shared(kind):
    """two dependents of one checksummed / always target, built in parallel"""
    shared = [ifchange('s'), out('stdout', 's')]
    if kind == 'stamp':
        shared = shared + [stamp()]
    else:
        shared = [always()] + shared
    return {
        'name': 'par_shared_' + kind,
        'plain': ['s', 'x', 'p', 'q'],
        'rules': {'x.do': [{'x': shared}],
                  'p.do': [{'p': [ifchange('x'), out('stdout', 'x')]}],
                  'q.do': [{'q': [ifchange('x'), out('file', 'x')]}]},
        'init': ['s', 'x.do', 'p.do', 'q.do'],
        'cmds': [('redo', ['p', 'q'], False, 2), ('redo', ['q', 'p'], False, 2)],
        'user': ['s'], 'rm': [], 'doedits': [],
        'bounds': (3, 2),
    }


def par_fail():
    return {
        'name': 'par_fail',
        'plain': ['s', 's2', 'bad', 'ok', 'ok2'],
        # (bad fails at once, ok takes several steps: the failure is known while ok is still running and a third target
        # waits for its turn - without --keep-going the scheduler stops starting targets but still waits for ok)
        'rules': {'bad.do': [{'bad': [exit_(4)]}],
                  'ok.do': [{'ok': [ifchange('s'), ifchange('s2'), ifchange('s'), out('stdout', 's')]}],
                  'ok2.do': [{'ok2': [ifchange('ok'), out('stdout', 'ok')]}]},
        'init': ['s', 's2', 'bad.do', 'ok.do', 'ok2.do'],
        'cmds': [('redo', ['bad', 'ok', 'ok2'], True, 2), ('redo', ['ok', 'bad', 'ok2'], False, 2)],
        'user': [], 'rm': [], 'doedits': [],
        'bounds': (2, 2),
    }


def par_fail4():
    """a failure that becomes known while a slow sibling is still running and later targets wait for a token: without
    --keep-going the scheduler stops starting targets, but it waits for the sibling and records it"""
    return {
        'name': 'par_fail4',
        'plain': ['s', 's2', 'bad', 'ok', 'f1', 'f2'],
        'rules': {'bad.do': [{'bad': [exit_(4)]}],
                  'ok.do': [{'ok': [ifchange('s'), ifchange('s2'), ifchange('s'), ifchange('s2'), out('stdout', 's')]}],
                  'f1.do': [{'f1': [out('stdout')]}],
                  'f2.do': [{'f2': [out('stdout')]}]},
        'init': ['s', 's2', 'bad.do', 'ok.do', 'f1.do', 'f2.do'],
        'cmds': [('redo', ['ok', 'bad', 'f1', 'f2'], False, 2)],
        'user': [], 'rm': [], 'doedits': [],
        'bounds': (1, 1), 'repeat': 6,
    }


def par_unlocked():
    """two parallel siblings each re-checking (out of band) the same checksummed target"""
    return {
        'name': 'par_unlocked',
        'plain': ['s', 'x', 'p', 'q', 't'],
        'rules': {'x.do': [{'x': [ifchange('s'), out('stdout', 's'), stamp()]}],
                  'p.do': [{'p': [ifchange('x'), out('stdout', 'x')]}],
                  'q.do': [{'q': [ifchange('x'), out('stdout', 'x')]}],
                  't.do': [{'t': [ifchange('p', 'q'), out('stdout', 'p', 'q')]}]},
        'init': ['s', 'x.do', 'p.do', 'q.do', 't.do'],
        'cmds': [('redo', ['t'], False, 2)],
        'user': ['s'], 'rm': [], 'doedits': [],
        'bounds': (3, 2),
    }


def par_window():
    """x is requested directly by top and, through a longer path (top -> c -> b -> x), checked by b while x's script is
    already running but has not yet re-declared its dependencies"""
    return {
        'name': 'par_window',
        'plain': ['s', 'x', 'b', 'c', 'top'],
        'rules': {'x.do': [{'x': [ifchange('s'), out('stdout', 's')]}],
                  'b.do': [{'b': [ifchange('x'), out('file', 'x')]}],
                  'c.do': [{'c': [ifchange('b'), out('stdout', 'b')]}],
                  'top.do': [{'top': [ifchange('x', 'c'), out('stdout', 'x', 'c')]}]},
        'init': ['s', 'x.do', 'b.do', 'c.do', 'top.do'],
        'cmds': [('redo', ['top'], False, 2)],
        'user': ['s'], 'rm': [], 'doedits': [],
        'bounds': (3, 2),
    }


def parallel_family():
    return [complete(p) for p in [par_diamond(2), par_fan(3), par_shared('stamp'), par_shared('always'), par_fail(), par_fail4(),
                                  par_unlocked(), par_window()]]


# two commands at the same time --------------------------------------------------------------
def pair_family():
    """programs whose histories contain `par` steps: two top-level commands (two invocations, each with its own run id and
    jobserver) started at the same time on one project"""
    I, R = 'ifchange', 'redo'
    chain = {'name': 'pair_chain', 'plain': ['s', 'mid', 'top'],
             'rules': {'mid.do': [{'mid': [ifchange('s'), out('stdout', 's')]}],
                       'top.do': [{'top': [ifchange('mid'), out('stdout', 'mid')]}]},
             'init': ['s', 'mid.do', 'top.do'], 'cmds': [(I, ['top'], False)],
             'pairs': [((I, ['top'], False), (I, ['mid'], False)), ((I, ['top'], False), (I, ['top'], False)),
                       ((I, ['top'], False), (R, ['mid'], False))],
             'user': ['s'], 'rm': [], 'doedits': [], 'bounds': (3, 4)}
    stampp = {'name': 'pair_stamp', 'plain': ['s', 'u', 'mid', 'top'],
              'rules': {'mid.do': [{'mid': [ifchange('s', 'u'), out('stdout', 's'), stamp()]}],
                        'top.do': [{'top': [ifchange('mid'), out('stdout', 'mid')]}]},
              'init': ['s', 'u', 'mid.do', 'top.do'], 'cmds': [(I, ['top'], False)],
              'pairs': [((I, ['top'], False), (I, ['top'], False)), ((I, ['top'], False), (I, ['mid'], False))],
              'user': ['s', 'u'], 'rm': [], 'doedits': [], 'bounds': (3, 3)}
    dia = {'name': 'pair_diamond', 'plain': ['s', 'sh', 'a', 'b'],
           'rules': {'sh.do': [{'sh': [ifchange('s'), out('stdout', 's')]}],
                     'a.do': [{'a': [ifchange('sh'), out('stdout', 'sh')]}],
                     'b.do': [{'b': [ifchange('sh'), out('stdout', 'sh')]}]},
           'init': ['s', 'sh.do', 'a.do', 'b.do'], 'cmds': [(I, ['a', 'b'], False)],
           'pairs': [((I, ['a'], False), (I, ['b'], False)), ((I, ['a', 'b'], False), (I, ['b', 'a'], False))],
           'user': ['s'], 'rm': [], 'doedits': [], 'bounds': (2, 3)}
    fail = {'name': 'pair_fail', 'plain': ['s', 'bad', 'top', 'ok'],
            'rules': {'bad.do': [{'bad': [ifchange('s'), exit_(3)]}, {'bad': [ifchange('s'), out('stdout', 's')]}],
                      'ok.do': [{'ok': [ifchange('s'), out('stdout', 's')]}],
                      'top.do': [{'top': [ifchange('ok', 'bad'), out('stdout', 'ok', 'bad')]}]},
            'init': ['s', 'bad.do', 'ok.do', 'top.do'], 'cmds': [(I, ['top'], False)],
            'pairs': [((I, ['top'], False), (I, ['bad'], False)), ((I, ['top'], False), (I, ['ok', 'bad'], True))],
            'user': [], 'rm': [], 'doedits': ['bad.do'], 'bounds': (2, 4)}
    # one command finds `ok` locked by the other, queues it, and learns of the failure of `bad` while it waits: without
    # --keep-going it must not start `ok` afterwards
    lockfail = {'name': 'pair_lockfail', 'plain': ['s', 'bad', 'ok'],
                'rules': {'bad.do': [{'bad': [ifchange('s'), exit_(3)]}],
                          'ok.do': [{'ok': [ifchange('s'), out('stdout', 's')]}]},
                'init': ['s', 'bad.do', 'ok.do'], 'cmds': [(I, ['ok'], False)],
                'pairs': [((R, ['ok', 'bad'], False), (R, ['ok'], False)), ((R, ['ok', 'bad'], True), (R, ['ok'], False))],
                'user': [], 'rm': [], 'doedits': [], 'bounds': (1, 2), 'repeat': 10}
    alw = {'name': 'pair_always', 'plain': ['s', 'al', 'top'],
           'rules': {'al.do': [{'al': [always(), ifchange('s'), out('stdout', 's')]}],
                     'top.do': [{'top': [ifchange('al'), out('stdout', 'al')]}]},
           'init': ['s', 'al.do', 'top.do'], 'cmds': [(I, ['top'], False)],
           'pairs': [((I, ['top'], False), (I, ['top'], False)), ((I, ['top'], False), (I, ['al'], False))],
           'user': ['s'], 'rm': [], 'doedits': [], 'bounds': (2, 4)}
    # a query beside a build: it reads one consistent snapshot, lists what that snapshot says, never fails, changes nothing
    qry = {'name': 'pair_query', 'plain': ['s', 'mid', 'top'],
           'rules': {'mid.do': [{'mid': [ifchange('s'), out('stdout', 's'), stamp()]}],
                     'top.do': [{'top': [ifchange('mid'), out('stdout', 'mid')]}]},
           'init': ['s', 'mid.do', 'top.do'], 'cmds': [(I, ['top'], False)],
           'pairs': [((I, ['top'], False), ('ood', [], False)), ((I, ['top'], False), ('targets', [], False)),
                     ((I, ['top'], False), ('sources', [], False))],
           'user': ['s'], 'rm': [], 'doedits': [], 'bounds': (3, 4), 'repeat': 2}
    # (two process trees interleave: one more history step multiplies the state space by hundreds; the thorough tier takes
    # all programs, every history and more real runs per history instead of longer histories)
    return [complete(dict(p, no_viewer=True, fixed_bounds=True)) for p in [chain, stampp, dia, fail, lockfail, alw, qry]]


# dependency cycles ---------------------------------------------------------------------------
def cycle(name, chain, back, entries, j=1, extra=None):
    """targets chain[0] -> chain[1] -> ... -> chain[-1] -> back; commands enter at `entries`"""
    rules = {}
    for i, t in enumerate(chain):
        nxt = chain[i + 1] if i + 1 < len(chain) else back
        deps = [nxt] + (extra.get(t, []) if extra else [])
        rules[t + '.do'] = [{t: [ifchange(*deps), out('stdout', *deps)]}]
    plain = list(chain) + ['s']
    if extra:
        for v in extra.values():
            for x in v:
                if x not in plain:
                    plain.append(x)
                    rules[x + '.do'] = [{x: [ifchange('s'), out('stdout', 's')]}]
    cmds = []
    for e in entries:
        cmds.append(('ifchange', list(e), False, 1))
        cmds.append(('redo', list(e), False, j))
    return {'name': name, 'plain': plain, 'rules': rules, 'init': ['s'] + list(rules), 'cmds': cmds,
            'user': [], 'rm': [], 'doedits': [], 'bounds': (2, 2)}


def cycle_family():
    fam = [
        cycle('cyc1', ['a'], 'a', [['a']]),
        cycle('cyc2', ['a', 'b'], 'a', [['a'], ['b']]),
        cycle('cyc3', ['a', 'b', 'c'], 'a', [['a'], ['c']]),
        cycle('cyc_prefix', ['p', 'a', 'b'], 'a', [['p'], ['b']]),
        cycle('cyc_sib', ['a', 'b'], 'a', [['a']], extra={'a': ['ok']}),
        cycle('cyc2_j2', ['a', 'b'], 'a', [['a', 'b']], j=2),
        cycle('cyc_long', ['t1', 't2', 't3', 't4', 't5'], 't4', [['t1']]),
    ]
    fam[-1]['bounds'] = (1, 1)
    # a cycle m <-> n whose members were the first files the database saw (small ids), entered later through a new acyclic
    # prefix whose id has two digits and contains the digit of m's id (the inherited cycle set is a list of ids: an id must
    # be compared as a whole, not as a substring).  A filler target with four sources pushes the id of top0 to 12.
    srcs = ['s%d' % i for i in range(1, 5)]        # ids: m=2 m.do=3 n=4 n.do=5 fill=6 fill.do=7 s1..s4=8..11 top0=12
    rules = {'m.do': [{'m': [ifchange('n'), out('stdout', 'n')]}], 'n.do': [{'n': [ifchange('m'), out('stdout', 'm')]}],
             'top0.do': [{'top0': [ifchange('m'), out('stdout', 'm')]}],
             'fill.do': [{'fill': [ifchange(*srcs), out('stdout', 's1')]}]}
    fam.append({'name': 'cyc_ids', 'plain': ['m', 'n', 'top0', 'fill'] + srcs, 'rules': rules, 'init': srcs + list(rules),
                'cmds': [('redo', ['m'], False, 1), ('redo', ['fill'], False, 1), ('redo', ['top0'], False, 1)],
                'user': [], 'rm': [], 'doedits': [], 'bounds': (3, 3), 'skip_invariants': ['CycleReported']})
    # a cycle that comes into being by an edit, entered through a target that has already run redo-stamp (its record says
    # "checked in this run" while its script is still running) when the request for it comes back
    fam.append({'name': 'cyc_stamp', 'plain': ['a', 'b', 's', 'top'],
                'rules': {'a.do': [{'a': [out('stdout', tag=5), stamp(), ifchange('b')]}],
                          'b.do': [{'b': [ifchange('s'), out('stdout', 's')]}, {'b': [ifchange('a'), out('stdout', 'a')]}],
                          'top.do': [{'top': [ifchange('a'), out('stdout', 'a')]}]},
                'init': ['s', 'a.do', 'b.do', 'top.do'],
                'cmds': [('ifchange', ['a'], False, 1), ('ifchange', ['top'], False, 1), ('redo', ['a'], False, 2)],
                'user': [], 'rm': [], 'doedits': ['b.do'], 'bounds': (3, 2), 'skip_invariants': ['CycleReported']})
    # a cycle that arises from data: T asks for what its (checksummed) list names; after an edit the list names X, whose
    # rule asks for T.  T is then rebuilt through redo-unlocked (only its checksummed dependency is uncertain), i.e. by a
    # process that owns T's lock by proxy
    fam.append({'name': 'cyc_unlocked', 'plain': ['s', 'lst', 'T', 'X'],
                'rules': {'lst.do': [{'lst': [ifchange('s'), out('stdout', 's'), stamp()]}],
                          'T.do': [{'T': [ifchange('lst'), {'op': 'ifchangeif', 'args': ['lst', 's', 'X'], 'ch': '', 'rc': 0},
                                          out('stdout', 'lst')]}],
                          'X.do': [{'X': [ifchange('T'), out('stdout', 'T')]}]},
                'init': ['s', 'lst.do', 'T.do', 'X.do'],
                'cmds': [('ifchange', ['T'], False, 1), ('redo', ['T'], False, 2)],
                'user': ['s'], 'rm': [], 'doedits': [], 'bounds': (3, 2), 'skip_invariants': ['CycleReported']})
    return [complete(p) for p in fam]


# kills (C10) ---------------------------------------------------------------------------------
def crash_family(window=False, stamp_window=False):
    out_ = []
    base = [chain(), stamped(1, 'plain'), outputs('outfile', [('file', 0), ('stdout', 0)], user_t=False), ifcreate_prog(),
            dict(outputs('outdir', [('dirout', 0)], user_t=False), user=[]),
            outputs('outdird', [('dirdirect', 0)], user_t=False),
            # what an earlier killed run may have left at $3: a partial file or a dangling symbolic link (step `tmp`)
            dict(outputs('staletmp', [('file', 0)], user_t=False), tmpfiles=['t'])]
    if stamp_window:
        # the user writes the checksummed target by hand after a kill that fell between its redo-stamp and the recording
        # of its first build (a generated record without a stamp, and a file that redo did not make)
        sh = stamped(1, 'plain')
        sh['name'] = 'stamphand'
        sh['user'] = ['mid']
        sh['repeat'] = 6          # (the kill point moves with the run number: six different ones per history)
        sh['sample_n'] = 60
        base.append(sh)
    for p in base:
        p = dict(p)
        keep_user = p['name'] == 'stamphand'
        p['name'] = 'crash_' + p['name'] + ('_w' if window else '') + ('_s' if stamp_window else '')
        p['stamp_window'] = stamp_window
        p['cmds'] = [c for c in p['cmds'] if c[0] == 'ifchange'][:1]
        p['user'] = p['user'] if keep_user else [x for x in p['user'] if x in ('s', 'x')][:1]
        p['rm'] = []
        p['doedits'] = []
        p['max_crash'] = 1
        p['crash_window'] = window
        p['bounds'] = (4, 3) if (p['user'] or p.get('tmpfiles')) else (3, 3)      # (without user steps a history has at most MaxCmds entries)
        out_.append(complete(p))
    return out_


FAMILY_DEEP = [autodir, stamp_layers, stamp_static, stamp_override, override_rm_q, stamp_diamond, stamp_chain2, override3, subdirs_cwd, alias_prog, fail_kinds, ifcreate_link, symlink_prog, symlink_stamped, nodir_prog, always2, fail_diamond, override2, stamp_toggle, stamped_deep, ifcreate_deep, do_recreate, subdirs, fan_shared, fail_memo]


def deep_programs():
    return [complete(f()) for f in FAMILY_DEEP]


def with_queries(p, kinds=('ood', 'targets', 'sources')):
    p = dict(p)
    p['name'] = p['name'] + '_q'
    p['cmds'] = list(p['cmds'][:2]) + [(k, [], False) for k in kinds]
    p.pop('bounds', None)
    return p


def query_family():
    return [complete(with_queries(f())) for f in
            [chain, lambda: stamped(1, 'plain'), roles, failing, always_prog, default_prog, stamped_mid2]]


FAMILY_QUICK = [chain, diamond, lambda: stamped(1, 'plain'), lambda: stamped(1, 'always'),
                lambda: stamped(2, "plain"), stamped_mid2, always_prog, ifcreate_prog, default_prog, failing, roles]


def all_programs():
    return [complete(f()) for f in FAMILY_QUICK]
