"""Registry of the per-property checks."""
import common
import programs
import syscheck

ASSUME_SYS = [
    'TLC 1.8 and the CommunityModules are correct',
    'RedoSys/RedoCore are a faithful reading of the code: bound by replaying every exported behaviour '
    'on the real binaries and comparing exit status, scripts run, file bytes, database rows and edges',
    'sources are not edited while a run is in progress; distinct mtimes per edit (harness sleeps 2 ms)',
    'one command in flight except in the pair programs (two); directories as targets, symbolic-link sources, spellings and '
    'subdirectories are modelled; links produced by scripts and directories as dependencies are not',
]


def finish(pid, tier, verdict, coverage, tool_errors, wall, level='model_checking', assumptions=ASSUME_SYS):
    rc = verdict.finish()
    common.write_evidence(pid, tier, level, coverage, wall, violations=len(verdict.violations),
                          assumptions=list(assumptions))
    if tool_errors and rc == 0:
        for t in tool_errors:
            print('TOOL-ERROR: ' + t)
        return common.EXIT_TOOL
    return rc


def fam(names):
    allp = {p['name']: p for p in programs.all_programs() + programs.deep_programs()}
    return [allp[n] for n in names]


def bounds(tier, quick=(4, 3), thorough=(5, 3)):
    return thorough if tier == 'thorough' else quick


def pinned_override(pid, tier, cov, te, expected, invariants=(), properties=()):
    """anti-vacuity for fix 70d1dd5: with the record of an overridden file written only once (OverrideStale) TLC must find
    the old counterexample on program override3"""
    import histories
    p = dict([x for x in programs.deep_programs() if x['name'] == 'override3'][0], override_stale=True)
    d = common.workdir('%s_%s_pinned' % (pid, tier))
    r, _ = histories.gen_histories(p, d, max_hist=7, max_cmds=5, invariants=list(invariants), properties=list(properties), workers=6)
    cov.setdefault('pinned_counterexamples', []).append(
        {'program': 'override3', 'switch': 'OverrideStale', 'expected': expected, 'found': r.violated})
    if r.violated != expected:
        te.append('anti-vacuity: override3 with OverrideStale should violate %s, TLC says %s' % (expected, r.violated or r.error))


def pinned_keepcsum(pid, tier, cov, te):
    """anti-vacuity for fix 494d449: with the checksum of a hand-edited / adopted file kept (KeepCsum) TLC must find the old
    Fresh counterexample on program stamp_override"""
    import histories
    p = dict([x for x in programs.deep_programs() if x['name'] == 'stamp_override'][0], keep_csum=True)
    d = common.workdir('%s_%s_pinned_csum' % (pid, tier))
    r, _ = histories.gen_histories(p, d, max_hist=5, max_cmds=3, invariants=['Fresh'], workers=4)
    cov.setdefault('pinned_counterexamples', []).append(
        {'program': 'stamp_override', 'switch': 'KeepCsum', 'expected': 'Fresh', 'found': r.violated})
    if r.violated != 'Fresh':
        te.append('anti-vacuity: stamp_override with KeepCsum should violate Fresh, TLC says %s' % (r.violated or r.error))


def c01(tier):
    family = programs.all_programs() + programs.deep_programs()
    v, cov, te, wall = syscheck.run_family(
        'C01', tier, family, ['Fresh'], [], {'rc', 'file'}, bounds(tier),
        sample_n=None if tier == 'thorough' else 40,
        required_actions=['StartBuild', 'EndBuild', 'UserWrite', 'UserRemove', 'DoEdit'],
        note='Fresh: after every command that exits 0 every file in the closure of the requested targets '
             'equals the from-scratch value Ideal(n) computed from the program and the current sources')
    pinned_keepcsum('C01', tier, cov, te)
    return finish('C01', tier, v, cov, te, wall)


def c02(tier):
    family = programs.all_programs() + programs.deep_programs()
    v, cov, te, wall = syscheck.run_family(
        'C02', tier, family, ['NoUnderBuild', 'NoDupRun', 'RecordedDepsCover'], ['NoOverBuild'],
        {'rc', 'ran', 'edge', 'rows', 'row.changed', 'row.checked', 'row.stamp', 'row.failed', 'row.gen', 'order'},
        bounds(tier), sample_n=None if tier == 'thorough' else 40,
        note='MustRun reference over ghost history gh (content generations seen at the last successful build); '
             'NoOverBuild on every script start of a redo-ifchange command, NoUnderBuild after every exit-0 command')
    pinned_override('C02', tier, cov, te, 'NoOverBuild', properties=['NoOverBuild'])
    return finish('C02', tier, v, cov, te, wall)


def c03(tier):
    family = fam(['stamped1plain', 'stamped1always', 'stamped2plain', 'stamped_nested', 'stamp_toggle', 'stamped_deep', 'stamp_diamond', 'stamp_chain2', 'stamp_override', 'stamp_static', 'stamp_layers'])
    v, cov, te, wall = syscheck.run_family(
        'C03', tier, family, ['Fresh', 'NoUnderBuild', 'NoDupRun'], ['NoOverBuild'],
        {'rc', 'ran', 'file', 'row.csum', 'row.changed', 'row.checked'},
        bounds(tier, (4, 3), (6, 4)), sample_n=None if tier == 'thorough' else 80,
        note='checksummed targets at depth 1..2 under plain/always/checksummed dependents; u is declared but '
             'ignored by mid (edit invisible to the checksum), s is read (edit visible)')
    pinned_keepcsum('C03', tier, cov, te)
    return finish('C03', tier, v, cov, te, wall)


def c05(tier):
    family = fam(['failing', 'fail_diamond', 'fail_memo', 'nodir', 'fail_kinds']) + [p for p in programs.parallel_family() if p['name'] == 'par_fail']
    v, cov, te, wall = syscheck.run_family(
        'C05', tier, family, ['FailPropagates', 'NoCleanOverFailed', 'NoDupRun', 'NoUnderBuild'], [],
        {'rc', 'ran', 'row.failed', 'row.gen', 'file'},
        bounds(tier, (4, 3), (5, 4)), sample_n=None if tier == 'thorough' else 150,
        note='failing rule (first build and later version), keep-going and not, repaired in version 2')
    # a failure that becomes known while a target of the same command is locked by another invocation (no new target may be
    # started afterwards without --keep-going), and a failing target requested by two invocations at once
    pairs_part('C05', tier, v, cov, te, only=('pair_lockfail', 'pair_fail') if tier == 'thorough' else ('pair_lockfail',))
    return finish('C05', tier, v, cov, te, wall)


def c11(tier):
    family = fam(['roles', 'defaults', 'chain', 'override2', 'override3', 'stamp_override'])
    v, cov, te, wall = syscheck.run_family(
        'C11', tier, family, ['Fresh'], ['NoTrample'],
        {'rc', 'file', 'row.gen', 'row.ovr', 'ran'},
        bounds(tier, (4, 3), (6, 4)), sample_n=None if tier == 'thorough' else 100,
        note='files changing role between source and target; NoTrample: no redo step changes a user-owned file')
    # hook-free: the system calls of the redo processes (strace) against TraceFs: no rename onto / unlink of / write into
    # a file the user owns
    import fscheck
    fcov, fte = fscheck.run_fs('C11', tier, family, v, common.build_redo(), per_prog=8 if tier == 'quick' else 80)
    cov.update(fcov)
    cov['traces_validated_against_impl'] += fcov['fsop_traces_accepted']
    te += fte
    wall += fcov['fsop_wall_s']
    return finish('C11', tier, v, cov, te, wall)


def c14(tier):
    family = fam(['ifcreate', 'always', 'always2', 'ifcreate_deep', 'do_recreate', 'ifcreate_link'])
    v, cov, te, wall = syscheck.run_family(
        'C14', tier, family, ['Fresh', 'NoUnderBuild', 'NoDupRun'], ['NoOverBuild'],
        {'rc', 'ran', 'file', 'edge'},
        bounds(tier, (4, 3), (6, 4)), sample_n=None if tier == 'thorough' else 100,
        note='redo-ifcreate via the exists?ifchange:ifcreate idiom, creating/deleting the watched path; '
             'redo-always target shared by two dependents')
    return finish('C14', tier, v, cov, te, wall)


def c04(tier):
    family = programs.output_family()
    v, cov, te, wall = syscheck.run_family(
        'C04', tier, family, ['NoTmpLeft', 'Fresh'], ['OnlyCompleteOutput', 'NoTrample'],
        {'rc', 'file', 'tmp', 'ran', 'row.failed', 'row.gen'},
        bounds(tier, (4, 3), (5, 4)), sample_n=None if tier == 'thorough' else 30,
        pads=(1, 65536, 4194304) if tier == 'thorough' else (1, 65536, 1048576), watch=True,
        note='one target whose rule versions cover stdout / $3 / nothing / both / direct write to $1, exit 0, '
             'non-zero and death by SIGKILL, over prior states absent / generated / hand-written')
    # hook-free: the system calls of the redo processes (strace) against TraceFs
    import fscheck
    fcov, fte = fscheck.run_fs('C04', tier, family, v, common.build_redo(), per_prog=3 if tier == 'quick' else 40)
    cov.update(fcov)
    cov['traces_validated_against_impl'] += fcov['fsop_traces_accepted']
    te += fte
    wall += fcov['fsop_wall_s']
    return finish('C04', tier, v, cov, te, wall)


def c17(tier):
    family = programs.query_family() + fam(['override3', 'override_rm_q'])
    v, cov, te, wall = syscheck.run_family(
        'C17', tier, family,
        ['TargetsSourcesPartition', 'OodLower', 'OodUpper', 'OodEmptyAfterBuild', 'Fresh', 'NoUnderBuild'], ['NoOverBuild'],
        {'rc', 'ran', 'file', 'rows', 'row.checked', 'row.changed', 'row.failed', 'row.gen', 'row.ovr', 'row.stamp', 'edge'},
        bounds(tier, (4, 4), (5, 5)), sample_n=None if tier == 'thorough' else 60,
        required_actions=['Query'],
        note='redo-ood/targets/sources inserted at every position of the histories; the query output must equal '
             'the specification\'s, the database must be unchanged by it, and the rest of the history must behave '
             'as the specification says (which treats a query as a no-op except for the run id)')
    pinned_override('C17', tier, cov, te, 'OodEmptyAfterBuild', invariants=['OodEmptyAfterBuild'])
    return finish('C17', tier, v, cov, te, wall)


def c07(tier):
    family = programs.parallel_family()
    v, cov, te, wall = syscheck.run_family(
        'C07', tier, family, ['NoDupRun', 'Fresh', 'NoTmpLeft', 'FailPropagates'], ['NoTrample'],
        {'rc', 'ran', 'file', 'row.gen', 'row.failed', 'row.csum', 'row.ovr', 'edge', 'tmp'},
        bounds(tier, (3, 2), (3, 2)), sample_n=None if tier == 'thorough' else 30,
        jitter=True, repeat=24 if tier == 'thorough' else 4, sched_independent=True, sched=3, trace_locks=True,
        required_actions=['AcquireA', 'ReleaseA', 'Pass2A'],
        note='redo -j2/-j3 on diamonds, fans, shared checksummed and always targets, a failing sibling; TLC '
             'enumerates every interleaving of process steps; the driver checks that all terminal outcomes of one '
             'input agree (exit status, files, rows, edges); the real build is run with random script delays and, three '
             'runs out of four, under controlled scheduling (every process stops at every gate, a seeded scheduler lets one '
             'go at a time: uniform choice or PCT priorities with the change point swept by the seed) and must agree with '
             'a specification behaviour')
    return finish('C07', tier, v, cov, te, wall)


def confirm_hang(prog, inv, tracefile, bindir, d):
    """replay a NotHung counterexample: run the history and the command in flight on the real code and
    see whether it really fails to terminate (several attempts: the hang needs a particular schedule)"""
    import json
    import os
    import harness
    if inv != 'NotHung' or not os.path.exists(tracefile):
        return None
    t = json.load(open(tracefile))
    fin = t['counterexample']['state'][-1][1]
    cmd = fin['cmd']
    for attempt in range(6):
        pj = harness.Project(prog, os.path.join(d, 'confirm_hang'), bindir, jitter=True)
        for step in fin['hist']:
            if step['a'] == 'write':
                pj.write_user(step['n'], step['v'])
            elif step['a'] == 'rm':
                pj.remove(step['n'])
            elif step['a'] in ('doedit', 'doadd'):
                pj.write_do(step['n'], step['v'])
            elif step['a'] == 'cmd':
                argv = ['redo-ifchange' if step['kind'] == 'ifchange' else 'redo']
                if step.get('j', 1) > 1:
                    argv.append('-j%d' % step['j'])
                pj.run(argv + list(step['targs']), timeout=20)
        argv = ['redo-ifchange' if cmd['kind'] == 'ifchange' else 'redo']
        if cmd.get('j', 1) > 1:
            argv.append('-j%d' % cmd['j'])
        rc, so, se, started, to = pj.run(argv + list(cmd['targs']), timeout=8)
        if to:
            return True
    return False


def c12(tier):
    family = programs.cycle_family()
    v, cov, te, wall = syscheck.run_family(
        'C12', tier, family, ['NotHung', 'NoPanic', 'CycleReported'], [],
        {'rc', 'ran', 'codes', 'file', 'row.failed'},
        (2, 2), sample_n=None, cmd_timeout=12, jitter=True, repeat=3 if tier == 'thorough' else 1,
        confirm_spec=confirm_hang, min_cmds=1,
        note='cycles of length 1..3, behind an acyclic prefix, with an acyclic sibling, two entry points at -j2, '
             'and a 5-target chain (file ids reaching two digits); first build and rebuild (recorded edges); '
             'NotHung = some process can always move (TLC ENABLED); real commands run under a 12 s limit')
    return finish('C12', tier, v, cov, te, wall)


def confirm_by_replay(prog, inv, tracefile, bindir, d):
    """replay a TLC counterexample that ends in a quiescent state: its history (with its kill) must be
    reproducible on the real code, observation by observation; tries every kill position"""
    import json
    import os
    import harness
    if not os.path.exists(tracefile):
        return None
    t = json.load(open(tracefile))
    fin = t['counterexample']['state'][-1][1]
    hist = fin['hist']
    if not hist or fin['cmd']['kind'] != 'idle':
        return None
    for seed in range(40):
        ok, rep = harness.replay_group(prog, [hist], os.path.join(d, 'confirm_replay'), bindir, kill_seed=seed,
                                       cmd_timeout=30)
        if ok:
            with open(os.path.join(d, 'confirmed_%s.json' % inv), 'w') as f:
                json.dump({'program': prog, 'history': hist, 'kill_seed': seed, 'report': rep}, f, indent=1, default=list)
            return True
    return False


def c10(tier):
    verdict = common.Verdict('C10')
    inv = ['Fresh', 'RecoversOk', 'NotHung', 'NoPanic']
    cats = {'rc', 'ran', 'file', 'rows', 'row.gen', 'row.ovr', 'row.failed', 'row.changed', 'row.checked',
            'row.stamp', 'row.csum', 'edge', 'tmp'}
    # (a) every kill point outside the two known windows: the properties must hold
    v, cov, te, wall = syscheck.run_family(
        'C10', tier, programs.crash_family(), inv, [], cats, (4, 3), sample_n=None if tier == 'thorough' else 40,
        repeat=4 if tier == 'thorough' else 2, min_cmds=1, cmd_timeout=30, verdict=verdict,
        required_actions=['CrashTree'],
        note='SIGKILL of the whole tree (history step "crash") or of one redo process (command marked killed) at '
             'every specification state; real kills at the K-th commit/rename gate of the hooked redo, K from a '
             'dry run on a hard-linked clone; the post-kill files and database must equal a specification state '
             'and the recovery and later edit/rebuild steps must behave as that state predicts')
    # (b), (c) the known windows: the specification itself shows the violation; it is confirmed on the real code
    for fam_, label in ((programs.crash_family(window=True), 'rename..commit window'),
                        ([p for p in programs.crash_family(stamp_window=True) if 'stamp' in p['name']],
                         'redo-stamp..record window')):
        v, cov2, te2, wall2 = syscheck.run_family(
            'C10', tier, fam_, inv, [], cats, (4, 3), sample_n=10, min_cmds=1, cmd_timeout=30, verdict=verdict,
            confirm_spec=confirm_by_replay, subdir='win', note=label)
        te += te2
        wall += wall2
        cov['states'] += cov2['states']
        cov['transitions'] += cov2['transitions']
        cov['traces_validated_against_impl'] += cov2['traces_validated_against_impl']
        cov.setdefault('window_runs', []).append({'which': label, 'states': cov2['states'],
                                                  'replayed': cov2['behaviours_replayed']})
    # anti-vacuity: with the repaired behaviour switched back (a stale temporary *directory* makes start_self fail) TLC must
    # find the old counterexample
    import os
    import histories
    pd = dict([p for p in programs.crash_family() if p['name'] == 'crash_outdir'][0], stale_tmpdir_bug=True)
    dd = common.workdir('C10_%s_pinned' % tier)
    r0, _ = histories.gen_histories(pd, dd, max_hist=3, max_cmds=3, invariants=['RecoversOk'], workers=4)
    cov['pinned_counterexamples'] = [{'program': 'crash_outdir', 'switch': 'StaleTmpDirBug', 'expected': 'RecoversOk', 'found': r0.violated}]
    if r0.violated != 'RecoversOk':
        te.append('anti-vacuity: crash_outdir with StaleTmpDirBug should violate RecoversOk, TLC says %s' % (r0.violated or r0.error))
    ph = dict([p for p in programs.crash_family(stamp_window=True) if p['name'] == 'crash_stamphand_s'][0], null_stamp_panics=True)
    r1, _ = histories.gen_histories(ph, dd, max_hist=4, max_cmds=3, invariants=['NoPanic'], workers=4)
    cov['pinned_counterexamples'].append({'program': 'crash_stamphand_s', 'switch': 'NullStampPanics', 'expected': 'NoPanic',
                                          'found': r1.violated})
    if r1.violated != 'NoPanic':
        te.append('anti-vacuity: crash_stamphand_s with NullStampPanics should violate NoPanic, TLC says %s' % (r1.violated or r1.error))
    # (d) kills at system-call granularity (strace injection), oracle = the histories TLC exports without the kill
    import killsweep
    kcov, kte = killsweep.run_sweep('C10', tier, verdict, common.build_redo())
    cov.update(kcov)
    cov['states'] += kcov.get('syscall_sweep_states', 0)
    cov['traces_validated_against_impl'] += kcov.get('syscall_kill_runs', 0)
    te += kte
    wall += kcov.get('syscall_sweep_wall_s', 0)
    return finish('C10', tier, verdict, cov, te, wall)


ASSUME_JOBS = [
    'TLC 1.8 and the CommunityModules are correct',
    'RedoJobs is a faithful reading of jobserver.rs / builder::run: bound by validating the token events of every '
    'recorded real execution against TraceJobs, which recomputes my_tokens/cheats with the same RedoTok operators '
    'and checks conservation after every event',
    'event order in the trace file is a sound total order: giving events are logged before the system call, taking '
    'events after it; one write(2) per line on an O_APPEND descriptor',
    'small process trees (two or three levels, up to five targets) in the model; random DAGs of 4-40 targets in the real runs',
]


def jobs_check(pid, tier, focus, invariants, note):
    import time
    import jobcheck
    import jobs
    t0 = time.time()
    verdict = common.Verdict(pid)
    d = common.workdir('%s_%s_mc' % (pid, tier))
    cov, tool = jobcheck.mc_part(tier, d, verdict, pid, invariants)
    # anti-vacuity: with the repairs switched off in the specification TLC must find the old counterexamples
    pinned = []
    for sc, inv in jobs.pinned_family():
        res, tr = jobs.run_mc(sc, d, workers=4)
        pinned.append({'scenario': sc['name'], 'expected': inv, 'found': res.violated})
        if res.violated != inv:
            tool.append('anti-vacuity: scenario %s should violate %s, TLC says %s' % (sc['name'], inv, res.violated or res.error))
    cov['pinned_counterexamples'] = pinned
    for a in ('SelectA', 'HandleFdA', 'WaitAllA', 'EnsureA', 'P2ReleaseA', 'P2LockedA', 'ReturnA', 'HandleA'):
        if cov['action_coverage'].get(a, 0) == 0:
            tool.append('coverage: action %s never taken' % a)
    if pid == 'C08':
        ind, t2 = jobcheck.apalache_part(d, verdict, pid)
        cov['inductive_invariant_apalache'] = ind
        cov['obligations'] = 2
        cov['discharged'] = sum(1 for k in ('base', 'step') if ind.get(k, {}).get('outcome') == 'NoError')
        tool += t2
    if pid == 'C08':
        # which jobserver a process uses at all: RedoSetup (MAKEFLAGS / REDO_CHEATFDS / -j decision table)
        import funcheck
        scov, stool = funcheck.setup_part(tier, d, verdict, common.build_redo())
        cov.update(scov)
        cov['states'] = cov.get('states', 0) + scov.get('setup_configurations', 0)
        tool += stool
    if pid == 'C09':
        # unusual input at the point where a job is started: the first line of the .do file (RedoExec); an abort of the
        # scheduler there orphans its running jobs
        import funcheck
        ecov, etool = funcheck.exec_part(tier, d, verdict, common.build_redo(), pid='C09')
        cov.update(ecov)
        tool += etool
    real = jobcheck.real_part(tier, pid, focus, verdict)
    cov.update(real)
    if pid == 'C08':
        cov['traces_validated_against_impl'] = cov.get('traces_validated_against_impl', 0) + cov.get('setup_real_runs', 0)
    cov['samples'] = [real.pop('sample_real')] if real.get('sample_real') else [{'note': 'no clean run'}]
    cov.pop('sample_real', None)
    cov['invariants'] = invariants
    cov['exhaustive'] = True
    cov['note'] = note
    return finish(pid, tier, verdict, cov, tool, time.time() - t0, assumptions=ASSUME_JOBS)


def c08(tier):
    return jobs_check('C08', tier, 'tokens',
                      ['Conservation', 'MaxWork', 'ExitBalanced', 'QuiescentExact', 'TokensSane', 'NoPanic'],
                      'token pipe / cheat pipe protocol: every interleaving of the processes of small trees (own and '
                      'inherited jobserver, world taking tokens, cheating, failing jobs, a target locked by another '
                      'invocation); real builds under -j1..8 and under a harness-owned jobserver whose pipes are counted '
                      'afterwards; every token event of every real run validated against the protocol')


def c09(tier):
    return jobs_check('C09', tier, 'sched',
                      ['NoPanic', 'NotHung', 'AllSucceedExit0', 'TokensSane', 'ExitBalanced'],
                      'scheduler at poll-cycle granularity: every ready set per select(), both handling orders, random '
                      'poll order of wait_for, timers; real builds with delayed select() wake-ups (events coincide), '
                      'duplicate targets, two invocations contending for the same targets; panic / hang / wrong exit '
                      'status of any real command is a violation')


ASSUME_MULTI = [
    'TLC 1.8 and the CommunityModules are correct',
    'the trace specifications state the protocol of builder.rs / state.rs; they are bound to the code by validating the '
    'lock, script, transaction and token events of every recorded concurrent execution',
    'event order in the trace file is a sound total order (giving events logged before, taking events after the system '
    'call; script markers logged after the script began / before it ends)',
    'fcntl locks and SQLite behave as documented (per-process locks dropped at death; WAL, one writer)',
]


def pairs_part(pid, tier, verdict, cov, te, only=None):
    """two top-level commands in flight in RedoSys (histories with `par` steps): every interleaving of the two invocations in
    TLC, the real pair of commands must end as one of the specification's alternatives"""
    fam_ = programs.pair_family()
    if only:
        fam_ = [p for p in fam_ if p['name'] in only]
    elif tier != 'thorough':
        fam_ = [p for p in fam_ if p['name'] in ('pair_chain', 'pair_stamp', 'pair_lockfail', 'pair_query')]
    v, cov2, te2, wall2 = syscheck.run_family(
        pid, tier, fam_, ['ParFresh', 'ParFailPropagates', 'ParNoTmpLeft', 'ScriptMutex', 'HoldThroughRecord',
                          'ScriptUnderLock', 'NotHung', 'NoPanic', 'Fresh', 'RecordedDepsCover'], [],
        None, (3, 4), sample_n=None if tier == 'thorough' else 16, jitter=True, repeat=6 if tier == 'thorough' else 2,
        min_cmds=1, verdict=verdict, subdir='pairs', required_actions=['InitRunA', 'EndPar'], sched=1,
        note='two invocations at once inside RedoSys')
    te += te2
    cov['pair_states'] = cov2['states']
    cov['pair_programs'] = cov2['programs']
    cov['pair_history_inputs'] = cov2['history_inputs_enumerated']
    cov['pair_behaviours_replayed'] = cov2['behaviours_replayed']
    cov['pair_invariants'] = cov2['invariants']
    cov['states'] = cov.get('states', 0) + cov2['states']
    cov['transitions'] = cov.get('transitions', 0) + cov2['transitions']
    cov['traces_validated_against_impl'] = cov.get('traces_validated_against_impl', 0) + cov2['traces_validated_against_impl']


def c06(tier):
    import time
    import multicheck
    t0 = time.time()
    verdict = common.Verdict('C06')
    # (a) every interleaving of one process tree at -j2/-j3 (RedoSys)
    v, cov, te, wall = syscheck.run_family(
        'C06', tier, programs.parallel_family(), ['ScriptMutex', 'HoldThroughRecord', 'ScriptUnderLock', 'NoDupRun'], [],
        {'rc', 'ran', 'file', 'row.gen', 'row.failed'}, (3, 2), sample_n=None if tier == 'thorough' else 12,
        jitter=True, repeat=8 if tier == 'thorough' else 2, verdict=verdict, sched=1,
        required_actions=['AcquireA', 'ReleaseA', 'Pass2A', 'UnlockedStepA'],
        note='RedoSys at -j2/-j3: siblings contending for shared targets, redo-unlocked delegates')
    # (b) several invocations at once: recorded lock / script / commit events against TraceLocks
    real = multicheck.run_check('C06', tier, 'locks', verdict)
    cov['behaviours_replayed_on_real_code'] = cov.get('traces_validated_against_impl', 0)
    cov.update(real)
    cov['traces_validated_against_impl'] = real['traces_validated_against_impl'] + cov['behaviours_replayed_on_real_code']
    # (c) two invocations at once inside RedoSys: every interleaving, outcomes compared
    pairs_part('C06', tier, verdict, cov, te, only=None if tier == 'thorough' else ('pair_chain', 'pair_lockfail'))
    cov['note'] = ('(a) TLC: ScriptMutex / HoldThroughRecord / ScriptUnderLock on every interleaving of parallel process trees '
                   '(RedoSys); (b) 2-6 top-level commands started together on random DAGs (fresh and existing state dirs, '
                   'failing scripts, checksummed targets, log capture): every lock grant/release, decision, script begin/end, '
                   'result record and commit of every process is checked by TLC against the lock protocol (TraceLocks): '
                   'decide only under the lock or as redo-unlocked delegate of the holder, no overlap of two scripts of one '
                   'target, lock held until the result is committed')
    return finish('C06', tier, verdict, cov, te, time.time() - t0, assumptions=ASSUME_MULTI)


def c16(tier):
    import time
    import multicheck
    import dbmodel
    t0 = time.time()
    verdict = common.Verdict('C16')
    d = common.workdir('C16_%s_mc' % tier)
    cov, te = dbmodel.mc_part(tier, d, verdict)
    real = multicheck.run_check('C16', tier, 'db', verdict)
    cov.update(real)
    cov['exhaustive'] = True
    # (c) two invocations at once inside RedoSys: exit statuses and every row and edge left behind must be those of one
    # interleaving the specification allows (nothing lost, no failure that the scripts do not explain)
    pairs_part('C16', tier, verdict, cov, te, only=None if tier == 'thorough' else ('pair_stamp', 'pair_query'))
    cov['note'] = ('(a) TLC: RedoDb (SQLite WAL rules + the transaction scripts of the commands) for 2-4 concurrent builds and '
                   'queries, with and without an existing database: NoSpuriousFailure, NoLostState, RunIdsDistinct, NotStuck; '
                   'the pinned start-up (deferred transaction, exists/unlink/create) is kept as a mode and must yield the '
                   'counterexamples; (b) 3-10 commands (redo, redo-ifchange, redo-ood, redo-targets, redo-sources) started '
                   'together, half of the scenarios on a project without .redo: any database/lock error text or unexplained '
                   'non-zero exit is a violation; every TxBegin/RowSave/DepAdd/Commit is replayed by TLC (TraceDb: one writer '
                   'at a time, writes only under the write lock, run ids distinct) and the final database must equal the '
                   'committed state; pragma integrity_check')
    return finish('C16', tier, verdict, cov, te, time.time() - t0, assumptions=ASSUME_MULTI)


ASSUME_PATHS = [
    'TLC 1.8 and the CommunityModules are correct',
    'RedoPaths.Clean is a byte-level transcription of helpers::normpath; it is bound to the code by comparing the real function '
    'with the TLC-evaluated table on every enumerated input',
    'alphabet {/ . a b} for path strings, {a .} for file names, directory names d and e.f; other characters only through '
    'the random longer strings; /a and /b do not exist on this machine (relpath consults the file system for existing directories)',
]


def c15(tier):
    import time
    import funcheck
    t0 = time.time()
    verdict = common.Verdict('C15')
    exe = funcheck.build_vfun()
    bindir = common.build_redo()
    d = common.workdir('C15_' + tier)
    cov, tool = funcheck.lexical_part(tier, d, verdict, exe)
    acov, bad = funcheck.alias_part(tier, d, verdict, bindir)
    cov.update(acov)
    if bad:
        import json
        rp = d + '/alias_failures.json'
        json.dump(bad[:100], open(rp, 'w'), indent=1)
        verdict.violation('alias:' + bad[0]['problems'][0].split(':')[0][:30], rp,
                          '%d command lines naming one target by two spellings misbehave, e.g. (cwd %s) %s: %s'
                          % (len(bad), bad[0]['cwd'], ' '.join(bad[0]['argv']), '; '.join(bad[0]['problems'])[:400]))
    # spellings inside RedoSys: histories whose command lines and scripts name files by several spellings (at -j1 and -j2)
    v2, scov, ste, swall = syscheck.run_family(
        'C15', tier, fam(['alias', 'subdirs_cwd']), ['Fresh', 'NoUnderBuild', 'NoDupRun'], ['NoOverBuild'], None,
        (4, 3), sample_n=None if tier == 'thorough' else 60, jitter=True, repeat=3 if tier == 'thorough' else 1,
        verdict=verdict, subdir='sys',
        note='RedoSys with the constant Alias (spelling -> file, also relative to the working directory of a command '
             'started in a subdirectory): one record, one lock, one build per run')
    tool += ste
    cov['alias_histories'] = {'states': scov['states'], 'behaviours_replayed': scov['behaviours_replayed'],
                              'history_inputs_enumerated': scov['history_inputs_enumerated']}
    cov['states'] = cov.get('states', 0) + scov['states']
    cov['traces_validated_against_impl'] = cov['normpath_compared'] + cov['relpath_compared'] + acov['alias_command_lines'] \
        + scov['behaviours_replayed']
    cov['exhaustive'] = True
    cov['note'] = ('TLC: Idempotent, Preserves (meaning on a symlink-free tree), Canonical (one spelling per meaning) for every '
                   'string over {/,.,a,b} up to the bound, RelJoin/RelClean for every pair of absolute strings; the real normpath '
                   'and relpath are called on every enumerated input and must return what the specification computed; random '
                   'longer strings are checked for idempotence and against the canonical form; every pair of spellings of one '
                   'file (relative, ./, ../, //, absolute, through a symlinked directory, `..` after a symlinked directory) from three '
                   'working directories is given on one command line to redo, redo -j2 and redo-ifchange: exit 0, one execution, '
                   'one record; RedoSys with spellings (constant Alias) on command lines and in scripts: every history replayed '
                   'on the real code, rows compared (a second record for a spelling is a difference)')
    return finish('C15', tier, verdict, cov, tool, time.time() - t0, level='model_checking', assumptions=ASSUME_PATHS)


def c13(tier):
    import time
    import funcheck
    t0 = time.time()
    verdict = common.Verdict('C13')
    exe = funcheck.build_vfun()
    bindir = common.build_redo()
    d = common.workdir('C13_' + tier)
    cov, tool = funcheck.candidates_part(tier, d, verdict, exe, bindir)
    # the history part: a higher-priority script appears / the chosen one goes away, also inside a directory that the
    # target's own script makes (RedoSys programs, replayed)
    v2, hcov, hte, hwall = syscheck.run_family(
        'C13', tier, fam(['do_recreate', 'autodir', 'subdirs']), ['Fresh', 'NoUnderBuild', 'RecordedDepsCover'], ['NoOverBuild'],
        None, bounds(tier, (4, 3), (6, 4)), sample_n=None if tier == 'thorough' else 60, verdict=verdict, subdir='hist',
        required_actions=['DoAdd', 'DoRemove'])
    tool += hte
    cov['history_states'] = hcov['states']
    cov['history_behaviours_replayed'] = hcov['behaviours_replayed']
    cov['states'] = cov.get('states', 0) + hcov['states']
    # how the chosen script is executed: the first-line (interpreter) rule, RedoExec
    ecov, etool = funcheck.exec_part(tier, d, verdict, bindir)
    cov.update(ecov)
    cov['states'] = cov.get('states', 0) + ecov.get('exec_states', 0)
    tool += etool
    cov['traces_validated_against_impl'] = cov.get('dofiles_compared', 0) + cov.get('whichdo_and_builds', 0) + \
        ecov.get('exec_real_builds', 0) + hcov['behaviours_replayed']
    cov['exhaustive'] = True
    cov['note'] = ('TLC: the candidate list, script directory, $1 and $2 of every target (directory depth 0..n over {d, e.f}, every '
                   'file name over {a,.} up to the bound) with the order laws (specific rule first, a directory exhausted before its '
                   'parent, longest extension first) and argument laws ($1 names the target from the script directory, $2 is $1 '
                   'without the extension); possible_do_files is compared in process for every target; for a sample covering every '
                   'class (depth, dots, leading/trailing dot, level and kind of the chosen rule) a project is materialised in which '
                   'exactly the chosen candidate (and sometimes lower ones) exists: redo-whichdo must print exactly the candidates '
                   'up to it, the real build must run it in its directory with the predicted $1/$2 and a $3 beside the target; then '
                   'a higher-priority script is added (rebuild by it) and removed again (rebuild by the old choice); RedoExec: the '
                   'command line of the job for every first line of the .do file made of up to 3 (4) tokens over {#! # ! /bin/sh '
                   '/usr/bin/env blank tab -e sh -x} (a program always exists, it is sh or an absolute path, the script and its '
                   'arguments come last), and a real build per sampled line compared with the predicted command line run directly')
    return finish('C13', tier, verdict, cov, tool, time.time() - t0, level='model_checking', assumptions=ASSUME_PATHS)


def c18(tier):
    import time
    import funcheck
    import logcheck
    t0 = time.time()
    verdict = common.Verdict('C18')
    exe = funcheck.build_vfun()
    bindir = common.build_redo()
    d = common.workdir('C18_' + tier)
    cov, tool = logcheck.model_part(tier, d, verdict)
    c2, t2 = logcheck.meta_part(tier, d, verdict, exe)
    cov.update(c2)
    tool += t2
    c3 = logcheck.stream_part(tier, d, verdict, bindir, exe)
    cov.update(c3)
    cov.update(logcheck.append_only_part(tier, d, verdict, bindir))
    cov['states'] += cov.get('meta_states', 0)
    cov['traces_validated_against_impl'] = c3['traces_validated_against_impl']
    cov['exhaustive'] = True
    cov['samples'] = [{'stream events': ['Do{t}', 'Line{t,k}', 'Resumed{t}', 'Done{t}', 'End{expect}'],
                       'scenario': 'random DAG over three directories, scripts write `L <target> <k>` lines between their '
                                   'redo-ifchange calls (plain, ./ and ../ spellings), some end with an unterminated line, 70 kB '
                                   'lines, lines resembling records; redo --no-pretty -j1..4 and redo-log -r --no-pretty'}]
    cov['note'] = ('(a) TLC: RedoLog (log files, writers, the recursive lock-aware follower) on nested/aliased/partial-line '
                   'programs, live (follower interleaved with the build in every possible way) and replay: Once, InOrder, '
                   'Attributed, NoStray, DoOnce, FollowerEnds; the two repaired behaviours are kept as switches and must give '
                   'counterexamples; (b) TLC: RedoMeta round trip for every record of the family and Parse on every near-miss line '
                   'over {@ : space a 0 .}; Meta::parse is compared on every one of them; (c) real builds: the raw live stream and '
                   'the raw redo-log -r replay are tokenised (records through Meta::parse) and validated by TLC against TraceLog: '
                   'every script line exactly once, in order, under the target of the last do/resumed record; no record glued '
                   'into a line; each target announced once')
    return finish('C18', tier, verdict, cov, tool, time.time() - t0, assumptions=[
        'TLC 1.8 and the CommunityModules are correct',
        'RedoLog is a faithful reading of catlog(); bound by validating real raw streams against TraceLog, whose attribution '
        'rule (a line belongs to the target of the last do/resumed record) is the one RedoLog states',
        'scripts write self-identifying lines; a script that forges a fully valid record is outside the claim',
        'timestamps are compared as numbers (4 decimals)'])


def selftest(tier='quick'):
    """binding demonstration: a recorded real execution is accepted by the trace specifications, and stops being
    accepted when one event is removed or one recorded field is changed"""
    import copy
    import random
    import jobdrive
    import jobcheck
    import tracecheck
    bindir = common.build_redo()
    root = common.workdir('selftest')
    rnd = random.Random(7)
    pj = jobdrive.gen_project(rnd, 8, stamp=1)
    pdir = root + '/p'
    jobdrive.materialize(pj, pdir)
    trace = root + '/trace.ndjson'
    open(trace, 'w').close()
    r = jobdrive.run_build(bindir, pdir, trace, ['redo', '-j3'] + jobcheck.roots(pj), extra_env={'REDO_LOG': '0'})
    assert r['rc'] == 0, r['stderr']
    evs = tracecheck.load(trace)
    rows, edges, integ = tracecheck.read_census(pdir + '/.redo/db.sqlite3')
    cases = []
    jr = [x for run in tracecheck.jobs_runs(evs) for x in run]
    lr = tracecheck.locks_run(evs)
    dr = tracecheck.db_run(evs, (rows, edges))
    inv = {'TraceJobs': jobcheck.TRACE_INV, 'TraceLocks': ['Accepted', 'Mutex'], 'TraceDb': ['Accepted']}

    def drop(recs, pred):
        i = next(i for i, x in enumerate(recs) if pred(x))
        return recs[:i] + recs[i + 1:]

    def flip(recs, pred, key, val):
        out = copy.deepcopy(recs)
        x = next(x for x in out if pred(x))
        x[key] = val(x[key]) if callable(val) else val
        return out
    cases.append(('TraceJobs', 'unchanged trace', jr, True))
    cases.append(('TraceJobs', 'one TokGet removed', drop(jr, lambda x: x['ev'] == 'TokGet'), False))
    cases.append(('TraceJobs', 'a released token not written (shared 1 -> 0)', flip(jr, lambda x: x['ev'] == 'TokRel' and x['shared'] == 1, 'shared', 0), False))
    cases.append(('TraceJobs', 'one Reap removed', drop(jr, lambda x: x['ev'] == 'Reap'), False))
    cases.append(('TraceLocks', 'unchanged trace', lr, True))
    cases.append(('TraceLocks', 'lock grant of a built target removed', drop(lr, lambda x: x['ev'] == 'Take' and any(y['ev'] == 'Start' and y['fid'] == x['fid'] for y in lr)), False))
    ci = next(i for i in range(1, len(lr)) if lr[i]['ev'] == 'Commit' and lr[i - 1]['ev'] == 'Rec' and lr[i - 1]['pid'] == lr[i]['pid'])
    cases.append(('TraceLocks', 'a commit removed before the unlock', lr[:ci] + lr[ci + 1:], False))
    cases.append(('TraceDb', 'unchanged trace', dr, True))
    cases.append(('TraceDb', 'a saved row changed (changed_runid + 1)', flip(list(reversed(dr)), lambda x: x['ev'] == 'RowSave' and x['changed'] > 0, 'changed', lambda v: v + 1)[::-1], False))
    cases.append(('TraceDb', 'a dependency edge not recorded', drop(dr, lambda x: x['ev'] == 'DepAdd'), False))
    bad = 0
    for i, (module, what, recs, want) in enumerate(cases):
        path = '%s/case%d.ndjson' % (root, i)
        tracecheck.write_ndjson(recs, path)
        tr = tracecheck.validate(module, path, root, inv[module])
        ok = tr.ok == want and not tr.error
        print('%-10s %-55s %s%s' % (module, what, 'accepted' if tr.ok else 'rejected (%s)' % tr.violated, '' if ok else '   <-- UNEXPECTED'))
        bad += 0 if ok else 1
    print('selftest %s' % ('ok' if not bad else 'FAILED'))
    return 0 if not bad else 2


CHECKS = {'selftest': selftest, 'C18': c18, 'C13': c13, 'C15': c15, 'C06': c06, 'C16': c16, 'C08': c08, 'C09': c09, 'C10': c10, 'C12': c12, 'C07': c07, 'C17': c17, 'C04': c04, 'C01': c01, 'C02': c02, 'C03': c03, 'C05': c05, 'C11': c11, 'C14': c14}
