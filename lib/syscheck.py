"""Generic check over RedoSys: model-check the property's invariants on a family of programs,
export the behaviours, replay a sample (quick) or all (thorough) on the real code."""
import json
import os
import shutil
import time
from concurrent.futures import ThreadPoolExecutor

import common
import histories
import programs


def run_family(pid, tier, family, invariants, props, cats, bounds, sample_n, j=1,
               required_actions=(), verdict=None, note='', pads=(0,), watch=False,
               jitter=False, repeat=1, sched_independent=False, cmd_timeout=60, confirm_spec=None, min_cmds=2, subdir=None,
               sched=0, trace_locks=False):
    """family: list of program dicts.  bounds: (max_hist, max_cmds).  Returns (verdict, coverage)."""
    t0 = time.time()
    verdict = verdict or common.Verdict(pid)
    bindir = common.build_redo()
    root = common.workdir(pid + '_' + tier + ('_' + subdir if subdir else ''))
    max_hist, max_cmds = bounds
    tot_states = tot_trans = 0
    tot_groups = tot_replayed = tot_alts = 0
    trace_results = []
    samples = []
    cover = {}
    tool_errors = []

    def mc(prog):
        d = os.path.join(root, prog['name'])
        os.makedirs(d, exist_ok=True)
        mh, mcm = prog.get('bounds', (max_hist, max_cmds))
        if tier == 'thorough' and 'bounds' in prog and not prog.get('fixed_bounds'):
            mh, mcm = mh + 1, mcm + 1
        invs = [x for x in invariants if x not in prog.get('skip_invariants', ())]
        prs = [x for x in props if x not in prog.get('skip_invariants', ())]
        pre = []          # specification-level violations that are listed known findings
        while True:
            res, hs = histories.gen_histories(prog, d, j=j, max_hist=mh, max_cmds=mcm,
                                              invariants=invs, properties=prs, workers=4,
                                              timeout=3000 if tier == 'thorough' else 900,
                                              dump_trace=os.path.join(d, 'trace_%d.json' % len(pre)))
            key = 'spec:%s:%s' % (prog['name'], res.violated)
            if res.violated and common.known_finding(pid, key) and (res.violated in invs or res.violated in prs):
                # keep checking everything else on this program
                pre.append((res.violated, res, os.path.join(d, 'trace_%d.json' % len(pre))))
                invs = [x for x in invs if x != res.violated]
                prs = [x for x in prs if x != res.violated]
                continue
            break
        return prog, d, res, hs, pre

    with ThreadPoolExecutor(max_workers=3) as ex:
        results = list(ex.map(mc, family))

    for prog, d, res, hs, pre in results:
        for (inv, r0, tracefile) in pre:
            rp = os.path.join(d, 'counterexample_%s.txt' % inv)
            with open(rp, 'w') as f:
                f.write('program: %s\nproperty: %s violated in the specification\n\n%s' % (prog['name'], inv, r0.trace))
            confirmed = confirm_spec(prog, inv, tracefile, bindir, d) if confirm_spec else None
            if confirmed is False:
                tool_errors.append('%s: specification violates %s (listed known finding) but the real code does not '
                                   'show it any more: update known-findings.txt / the specification' % (prog['name'], inv))
            else:
                verdict.violation('spec:%s:%s' % (prog['name'], inv), rp,
                                  'specification violates %s on program %s' % (inv, prog['name']))
        tot_states += res.distinct
        tot_trans += res.generated
        for a, (dist, tot) in res.coverage.items():
            c = cover.setdefault(a, [0, 0])
            c[0] += dist
            c[1] += tot
        if res.error:
            tool_errors.append('%s: %s\n%s' % (prog['name'], res.error, common.tlc_error_text(res, 1500)))
            continue
        if res.violated:
            rp = os.path.join(d, 'counterexample.txt')
            with open(rp, 'w') as f:
                f.write('program: %s\nproperty: %s violated in the specification\n\n' % (prog['name'], res.violated))
                f.write(res.trace)
            with open(os.path.join(d, 'program.json'), 'w') as f:
                json.dump(prog, f, indent=1)
            confirmed = confirm_spec(prog, res.violated, os.path.join(d, 'trace_%d.json' % len(pre)), bindir, d) \
                if confirm_spec else None
            verdict.violation('spec:%s:%s' % (prog['name'], res.violated), rp,
                              'specification violates %s on program %s (TLC counterexample%s)'
                              % (res.violated, prog['name'],
                                 '; reproduced on the real code' if confirmed else
                                 ('; NOT reproduced on the real code' if confirmed is False else '')))
            continue
        groups = histories.group_histories(hs)
        if sched_independent:
            for inp, i in histories.schedule_dependent(groups):
                rp = os.path.join(d, 'schedule_dependent.json')
                with open(rp, 'w') as f:
                    json.dump({'program': prog, 'input': inp, 'step': i, 'alternatives': groups[inp]}, f, indent=1, default=list)
                verdict.violation('sched:%s:%s' % (prog['name'], json.dumps(inp)), rp,
                                  'specification: outcome of %s depends on the schedule (program %s)' % (list(inp), prog['name']))
                break
        groups = {k: v for k, v in groups.items() if histories.interesting(k, min_cmds) or sched_independent}
        tot_groups += len(groups)
        sn = max(sample_n, prog.get('sample_n', 0)) if sample_n else None      # (a program may ask for a larger sample)
        chosen = histories.sample(groups, sn if sn else len(groups), common.seed())
        pad = pads[(common.seed() + len(prog['name'])) % len(pads)]
        n_ok, fails = histories.replay_all(prog, chosen, bindir, os.path.join(d, 'replay'), nworkers=10, cats=cats,
                                           pad=pad, watch=watch, jitter=jitter, repeat=repeat * prog.get('repeat', 1), cmd_timeout=cmd_timeout,
                                           sched=sched, trace_dir=os.path.join(d, 'traces') if trace_locks else None,
                                           log_mode='0' if prog.get('no_viewer') else None)
        if trace_locks and os.path.isdir(os.path.join(d, 'traces')):
            for fn in sorted(os.listdir(os.path.join(d, 'traces'))):
                trace_results.append({'sc': {'id': '%s:%s' % (prog['name'], fn)}, 'dir': os.path.join(d, 'traces'),
                                      'trace': os.path.join(d, 'traces', fn), 'problems': []})
        tot_replayed += n_ok + len(fails)
        tot_alts += sum(len(g) for g in chosen)
        if chosen and len(samples) < 4:
            samples.append({'program': prog['name'],
                            'history': [list(histories.harness.step_input(s)) for s in chosen[0][0]],
                            'expected': [{k: v for k, v in s.items() if k in ('rc', 'ran', 'out')}
                                         for s in chosen[0][0] if s['a'] in ('cmd', 'query')] +
                                        [{'rc': [s['c1']['rc'], s['c2']['rc']], 'ran': [s['c1']['ran'], s['c2']['ran']]}
                                         for s in chosen[0][0] if s['a'] == 'par']})
        for alts, rep, dd in fails:
            last = rep[-1] if rep else {}
            text = 'program %s, history %s:\n' % (prog['name'], [e.get('input') for e in rep]) + \
                   '\n'.join('  ' + x for x in (last.get('diffs') or []))
            hung = any('did not terminate' in x for x in (last.get('diffs') or []))
            key = '%s:%s:%s' % ('hang' if hung else 'replay', prog['name'], json.dumps([e.get('input') for e in rep]))
            verdict.violation(key, dd, text)

    lock_cov = {}
    if trace_results:
        # the lock / script / commit events of the runs under controlled scheduling against the lock protocol (TraceLocks)
        import multicheck
        import tracecheck
        lv = multicheck.validate(trace_results, root, 'TraceLocks', lambda evs, res: tracecheck.locks_run(evs), ['Accepted', 'Mutex'])
        lock_cov = {'TraceLocks_traces': len(trace_results), 'TraceLocks_events': lv['events'], 'TraceLocks_accepted': lv['accepted']}
        for (r, inv, detail) in lv['violations']:
            import re
            m = re.search(r'bad = "([^"]*)"', detail)
            why = m.group(1) if m else inv
            rp = r['trace'] + '.violation.txt'
            with open(rp, 'w') as f:
                f.write('TraceLocks rejects the recorded execution %s\n%s\n\n%s\n' % (r['sc']['id'], why, detail))
            verdict.violation('trace:TraceLocks:%s' % why, rp, 'TraceLocks: %s (recorded execution %s)' % (why, r['sc']['id']))
        for r in trace_results:
            for pb in r['problems']:
                tool_errors.append('trace %s: %s' % (r['sc']['id'], pb))
    for a in required_actions:
        if cover.get(a, [0, 0])[1] == 0:
            tool_errors.append('coverage: action %s never taken' % a)

    coverage = {
        'states': tot_states,
        'transitions': tot_trans,
        'traces_validated_against_impl': tot_replayed - len([1 for v in verdict.violations if v[0].startswith('replay:')]),
        'samples': samples or [{'note': 'no behaviour replayed'}],
        'programs': len(family),
        'history_inputs_enumerated': tot_groups,
        'behaviours_replayed': tot_replayed,
        'spec_alternatives_for_replayed': tot_alts,
        'exhaustive': sample_n is None or sample_n == 0,
        'bounds': {'max_history_steps': max_hist, 'max_commands': max_cmds, 'J': j},
        'invariants': list(invariants), 'action_properties': list(props),
        'compared': sorted(cats) if cats else 'everything',
        'action_coverage': {k: v[1] for k, v in sorted(cover.items())},
        'note': note,
        'output_padding_bytes': list(pads), 'concurrent_reader': watch,
        'script_jitter': jitter, 'real_runs_per_history': repeat, 'schedule_independence_checked': sched_independent,
        **lock_cov,
        'controlled_scheduling': ('%d of every %d real runs under the gate serializer (uniform / PCT priorities, seed = run number)'
                                  % (sched, sched + 1)) if sched else 'no',
    }
    return verdict, coverage, tool_errors, time.time() - t0
