"""Trace validation (binding B1): event traces of the hooked redo, checked by TLC against a trace specification.

load()            ndjson trace of the hooked binaries -> list of events in file order (with sanity checks)
jobs_runs()       projection onto the token protocol, one run per jobserver domain (TraceJobs.tla)
validate()        run TLC on a trace specification; returns where and why it stopped
"""
import json
import os
import re
import subprocess
import time

import common

TOKEN_EVENTS = {'LockWait', 'JsSetup', 'JobStart', 'TokGet', 'CheatEat', 'TokCreate', 'TokRel', 'Reap', 'Cheat', 'ForceReturn',
                'CheatPut', 'SelfCheck', 'Exit', 'WorkBegin', 'WorkEnd', 'WorldTake', 'WorldPut', 'WorldCount'}


LOG_LOCK_MAGIC = 0x10000000


class TraceError(Exception):
    pass


def load(path):
    """events in file order.  Every line is one write(2) on an O_APPEND descriptor; per process the sequence
    numbers must be consecutive (a gap means a lost event: the trace is unusable, not the code wrong)."""
    evs = []
    last = {}
    with open(path, 'rb') as f:
        for n, line in enumerate(f, 1):
            line = line.strip()
            if not line:
                continue
            try:
                ev = json.loads(line)
            except ValueError:
                raise TraceError('%s:%d: not JSON: %r' % (path, n, line[:200]))
            if 'seq' in ev:
                pid = ev['pid']
                if pid in last and ev['seq'] != last[pid] + 1 and ev['seq'] != 1:
                    raise TraceError('%s:%d: pid %s sequence gap %s -> %s' % (path, n, pid, last[pid], ev['seq']))
                last[pid] = ev['seq']
            evs.append(ev)
    return evs


def jobs_runs(evs, world=None):
    """Split a trace into jobserver domains and project onto the token events.
    world: for runs under a harness-provided jobserver: dict(j=total tokens).  Returns list of runs, a run being
    a list of records starting with Reset."""
    # process tree: job child pid -> redo parent pid; redo pid -> ppid
    job_parent = {}
    ppid = {}
    setup = {}
    for ev in evs:
        if ev['ev'] == 'JobStart':
            job_parent[ev['child']] = ev['pid']
        elif ev['ev'] == 'ProcStart':
            ppid[ev['pid']] = ev['ppid']
        elif ev['ev'] == 'JsSetup':
            setup[ev['pid']] = ev

    def parent_job(pid):
        """the job (script pid) this redo process runs under, or 0"""
        pp = ppid.get(pid, 0)
        seen = 0
        while pp and pp not in job_parent and pp in ppid and seen < 8:      # e.g. sh -> redo
            pp = ppid[pp]
            seen += 1
        return pp if pp in job_parent else 0

    dom_cache = {}

    def domain(pid):
        """pid of the top-level redo process whose token pipe this process uses"""
        if pid in dom_cache:
            return dom_cache[pid]
        chain = []
        cur = pid
        while True:
            chain.append(cur)
            if cur in setup and setup[cur]['own']:
                d = cur
                break
            pj = parent_job(cur) if cur in ppid else (cur if cur in job_parent else 0)
            if cur in job_parent and cur not in ppid:
                nxt = job_parent[cur]
            elif pj:
                nxt = job_parent[pj]
            else:
                d = cur          # top level under an inherited jobserver
                break
            if nxt in chain:
                d = cur
                break
            cur = nxt
        for c in chain:
            dom_cache[c] = d
        return d

    runs = {}
    order = []
    for ev in evs:
        name = ev['ev']
        if name not in TOKEN_EVENTS:
            continue
        pid = ev['pid']
        if name in ('WorkBegin', 'WorkEnd'):
            if pid not in job_parent:
                continue
            d = domain(job_parent[pid])
        elif name in ('WorldTake', 'WorldPut', 'WorldCount'):
            d = ev['dom']
        else:
            if pid not in setup:
                continue            # a process without a jobserver (redo-log, redo-stamp, ...)
            if name == 'LockWait' and (ev.get('fid', 0) == 0 or ev.get('fid', 0) >= LOG_LOCK_MAGIC):
                continue
            d = domain(pid)
        if d not in runs:
            su = setup.get(d)
            if su is None:
                continue
            own = bool(su['own'])
            j = max(su['j'], 1) if own else (world or {}).get('j', 1)
            runs[d] = [{'ev': 'Reset', 'pid': 0, 'j': j, 'own': own}]
            order.append(d)
        rec = {'ev': name, 'pid': pid}
        for k in ('my', 'cheats', 'n', 'shared', 'child', 'left', 'tokens', 'cheatbytes', 'expect', 'rc', 'status'):
            if k in ev:
                rec[k] = ev[k]
        if name == 'JsSetup':
            rec['own'] = bool(ev['own'])
            rec['j'] = max(ev['j'], 1) if ev['own'] else 0
            rec['top'] = (pid == d)
            # inside its own domain a nested `redo -jN` owns the token its parent script lent it
            rec['par'] = 0 if (rec['top'] and rec['own']) else parent_job(pid)
        runs[d].append(rec)
    return [runs[d] for d in order]


LOG_LOCK_MAGIC = 0x10000000


def process_tree(evs):
    job_parent, ppid, jobinfo, unlocked, exited = {}, {}, {}, set(), set()
    last_start = {}
    for ev in evs:
        n = ev['ev']
        if n == 'JobStart':
            job_parent[ev['child']] = ev['pid']
            if ev['pid'] in last_start:
                jobinfo[ev['child']] = last_start.pop(ev['pid'])
        elif n == 'StartSelf':
            last_start[ev['pid']] = (ev['t'], ev['fid'])
        elif n == 'ProcStart':
            ppid[ev['pid']] = ev['ppid']
            if ev.get('unlocked') == '1':
                unlocked.add(ev['pid'])
        elif n == 'Exit':
            exited.add(ev['pid'])
    return job_parent, ppid, jobinfo, unlocked, exited


def ancestors(pid, job_parent, ppid):
    """redo processes above pid (through scripts / redo-unlocked)"""
    out = []
    cur = pid
    for _ in range(64):
        pp = ppid.get(cur)
        if pp is None:
            break
        # pp is a script / redo-unlocked pid (a job) or an unknown process
        hops = 0
        while pp not in job_parent and pp in ppid and hops < 8:
            pp = ppid[pp]
            hops += 1
        if pp not in job_parent:
            break
        cur = job_parent[pp]
        out.append(cur)
    return out


def locks_run(evs):
    """projection onto TraceLocks events (one run)"""
    job_parent, ppid, jobinfo, unlocked, exited = process_tree(evs)
    pids = set(ev['pid'] for ev in evs if 'seq' in ev)
    gone = sorted(p for p in pids if p not in exited)
    out = [{'ev': 'Reset', 'pid': 0, 'gone': gone}]
    anc_cache = {}
    # processes that build (redo, redo-ifchange): the log viewer also probes target locks, without any obligation
    builders = set(ev['pid'] for ev in evs if ev['ev'] == 'ProcStart' and ev.get('argv') and
                   os.path.basename(ev['argv'][0]) in ('redo', 'redo-ifchange'))

    def ctx(pid):
        if pid not in anc_cache:
            anc_cache[pid] = ancestors(pid, job_parent, ppid)
        return {'unl': pid in unlocked, 'anc': anc_cache[pid] if pid in unlocked else []}

    for ev in evs:
        n = ev['ev']
        pid = ev['pid']
        fid = ev.get('fid')
        if n in ('LockTry', 'LockAcq', 'LockRel') and (fid is None or fid == 0 or fid >= LOG_LOCK_MAGIC):
            continue
        if n == 'LockTry':
            if ev['ok']:
                out.append({'ev': 'Take', 'pid': pid, 'fid': fid})
            elif pid in builders:
                out.append({'ev': 'Busy', 'pid': pid, 'fid': fid})
        elif n == 'LockAcq':
            if not ev.get('shared'):
                out.append({'ev': 'Take', 'pid': pid, 'fid': fid})
        elif n == 'LockRel':
            out.append({'ev': 'Rel', 'pid': pid, 'fid': fid})
        elif n == 'LockWait':
            if fid and fid < LOG_LOCK_MAGIC:
                out.append({'ev': 'Wait', 'pid': pid, 'fid': fid})
        elif n == 'RowLoad':
            if out and out[-1]['ev'] == 'Load' and out[-1]['pid'] == pid and out[-1]['fid'] == ev['id']:
                continue
            out.append({'ev': 'Load', 'pid': pid, 'fid': ev['id']})
        elif n == 'Verdict':
            out.append(dict({'ev': 'Verdict', 'pid': pid, 'fid': fid}, **ctx(pid)))
        elif n == 'StartSelf':
            out.append(dict({'ev': 'Start', 'pid': pid, 'fid': fid}, **ctx(pid)))
        elif n == 'RecDone':
            out.append(dict({'ev': 'Rec', 'pid': pid, 'fid': fid}, **ctx(pid)))
        elif n == 'Commit':
            out.append({'ev': 'Commit', 'pid': pid})
        elif n == 'Exit':
            out.append({'ev': 'Exit', 'pid': pid, 'rc': ev.get('rc', -1) if isinstance(ev.get('rc', -1), int) else -1})
        elif n in ('ScriptStart', 'ScriptEnd'):
            if pid not in jobinfo or pid not in job_parent:
                continue
            par = job_parent[pid]
            rec = {'ev': 'SBegin' if n == 'ScriptStart' else 'SEnd', 'pid': pid, 'fid': jobinfo[pid][1], 'par': par,
                   't': ev.get('t', '')}
            rec.update(ctx(par))
            out.append(rec)
    return out


def _nn(x, dflt):
    return dflt if x is None else x


def db_run(evs, census=None):
    """projection onto TraceDb events (one run); census = (rows, edges) read from the database afterwards"""
    job_parent, ppid, jobinfo, unlocked, exited = process_tree(evs)
    pids = set(ev['pid'] for ev in evs if 'seq' in ev)
    gone = sorted(p for p in pids if p not in exited)
    out = [{'ev': 'Reset', 'pid': 0, 'gone': gone}]
    for ev in evs:
        n = ev['ev']
        pid = ev['pid']
        if n == 'TxBegin':
            out.append({'ev': 'TxBegin', 'pid': pid, 'mode': 'imm' if 'IMMEDIATE' in ev['mode'] or 'EXCLUSIVE' in ev['mode'] else 'def'})
        elif n == 'RowSave':
            out.append({'ev': 'RowSave', 'pid': pid, 'id': ev['id'], 'gen': bool(ev['gen']), 'ovr': bool(ev['ovr']),
                        'checked': _nn(ev['checked'], -1), 'changed': _nn(ev['changed'], -1),
                        'failed': _nn(ev['failed'], -1), 'stamp': _nn(ev['stamp'], ''), 'csum': _nn(ev['csum'], '')})
        elif n == 'Decide':
            out.append({'ev': 'Decide', 'pid': pid, 'fid': ev['fid'], 'gen': bool(ev['gen']), 'ovr': bool(ev['ovr']),
                        'checked': _nn(ev['checked'], -1), 'changed': _nn(ev['changed'], -1),
                        'failed': _nn(ev['failed'], -1), 'stamp': _nn(ev['stamp'], ''), 'csum': _nn(ev['csum'], '')})
        elif n == 'DepAdd':
            out.append({'ev': 'DepAdd', 'pid': pid, 'id': ev['id'], 'srcid': ev['srcid'], 'mode': ev['mode']})
        elif n in ('Zap1', 'Zap2'):
            out.append({'ev': n, 'pid': pid, 'id': ev['id']})
        elif n in ('Commit', 'Rollback', 'Exit'):
            out.append({'ev': n, 'pid': pid})
        elif n == 'LockWait':
            fid = ev.get('fid')
            if fid and fid < LOG_LOCK_MAGIC:
                out.append({'ev': 'Block', 'pid': pid, 'what': 'lockwait'})
        elif n == 'Select':
            out.append({'ev': 'Block', 'pid': pid, 'what': 'select'})
        elif n == 'StampInput':
            out.append({'ev': 'Block', 'pid': pid, 'what': 'stdin'})
        elif n == 'RunStart':
            out.append({'ev': 'RunStart', 'pid': pid, 'runid': ev['runid'] - 1000000000 if ev['runid'] else 0,
                        'toplevel': bool(ev['toplevel'])})
    if census is not None:
        rows, edges = census
        out.append({'ev': 'Census', 'pid': 0, 'rows': rows, 'edges': edges})
    return out


def read_census(dbpath):
    """rows and edges of a quiescent database, in the shape of db_run()'s events"""
    import sqlite3
    con = sqlite3.connect('file:%s?mode=ro' % dbpath, uri=True, timeout=30)
    try:
        rows = []
        for r in con.execute('select rowid, is_generated, is_override, checked_runid, changed_runid, failed_runid, '
                             'stamp, csum from Files'):
            rows.append({'id': r[0], 'gen': bool(r[1]), 'ovr': bool(r[2]), 'checked': _nn(r[3], -1),
                         'changed': _nn(r[4], -1), 'failed': _nn(r[5], -1), 'stamp': _nn(r[6], ''), 'csum': _nn(r[7], '')})
        edges = [{'t': r[0], 's': r[1], 'm': r[2], 'd': bool(r[3])}
                 for r in con.execute('select target, source, mode, delete_me from Deps')]
        integrity = con.execute('pragma integrity_check').fetchone()[0]
    finally:
        con.close()
    return rows, edges, integrity


def write_ndjson(records, path):
    with open(path, 'w') as f:
        for r in records:
            f.write(json.dumps(r, separators=(',', ':')) + '\n')


class TraceResult:
    def __init__(self):
        self.ok = False
        self.events = 0
        self.reached = 0
        self.violated = None      # invariant name, or 'Accepted' when an event was rejected
        self.detail = ''
        self.error = None
        self.wall = 0.0
        self.out = ''


def validate(module, tracefile, workdir, invariants, timeout=600, heap='3g'):
    """TLC on the trace specification `module` with TRACE=tracefile.  The trace specifications are
    deterministic (every event carries its values), so the search is linear in the trace length."""
    cfg = os.path.join(workdir, module + '.cfg')
    with open(cfg, 'w') as f:
        f.write('SPECIFICATION Spec\nVIEW View\nALIAS Alias\n' +
                ''.join('INVARIANT %s\n' % i for i in invariants))
    mod = os.path.join(workdir, module + '_run.tla')
    meta = os.path.join(workdir, 'states_' + module)
    cmd = ['java', '-XX:+UseParallelGC', '-Xmx' + heap, '-Xss512m', '-cp', common.TLA_CP,
           '-DTLA-Library=' + common.SPEC, 'tlc2.TLC', '-workers', '1', '-metadir', meta, '-cleanup',
           '-noGenerateSpecTE', '-deadlock', '-config', cfg, os.path.join(common.SPEC, module + '.tla')]
    env = dict(os.environ, TRACE=tracefile)
    res = TraceResult()
    res.events = sum(1 for _ in open(tracefile))
    t0 = time.time()
    try:
        r = subprocess.run(cmd, cwd=workdir, env=env, stdout=subprocess.PIPE, stderr=subprocess.STDOUT, text=True,
                           timeout=timeout)
        res.out = r.stdout
    except subprocess.TimeoutExpired as ex:
        res.error = 'TLC timeout'
        res.out = ex.stdout.decode('utf-8', 'replace') if isinstance(ex.stdout, bytes) else (ex.stdout or '')
    res.wall = time.time() - t0
    import shutil
    shutil.rmtree(meta, ignore_errors=True)
    out = res.out
    m = re.search(r'Invariant (\w+) is violated', out)
    if m:
        res.violated = m.group(1)
        # the last state printed (through ALIAS) tells where
        i = out.rfind('State ')
        res.detail = out[i:i + 6000] if i >= 0 else ''
        lm = re.findall(r'/\\ l = (\d+)', out)
        if lm:
            res.reached = int(lm[-1]) - 1
        return res
    if res.error is None:
        if 'Model checking completed. No error has been found' in out:
            res.ok = True
            res.reached = res.events
        else:
            i = out.find('Error:')
            res.error = 'TLC failed: ' + (out[i:i + 1500] if i >= 0 else out[-1500:])
    return res
