// vfun: calls the exported path functions of the redo crate on inputs read from stdin.
// One request per line, fields separated by TAB:
//   normpath <p>            -> cleaned path
//   relpath <t> <base>      -> t relative to base (or "ERR ...")
//   abs <cwd> <p>           -> abs_path(cwd, p)
//   dofiles <abs target>    -> candidates "dodir|dofile" joined by TAB
//   metaparse <line>        -> OK<US>kind<US>pid<US>timestamp<US>text[<US>rv<US>name] or ERR
// Output: one line per request.  Bytes are passed through unchanged (paths are OsStr).
use std::ffi::OsStr;
use std::io::{self, BufRead, Write};
use std::os::unix::ffi::OsStrExt;
use std::path::Path;

fn main() {
    let stdin = io::stdin();
    let stdout = io::stdout();
    let mut out = io::BufWriter::new(stdout.lock());
    let mut line = Vec::new();
    let mut input = stdin.lock();
    loop {
        line.clear();
        match input.read_until(b'\n', &mut line) {
            Ok(0) => break,
            Ok(_) => {}
            Err(_) => break,
        }
        if line.last() == Some(&b'\n') {
            line.pop();
        }
        let parts: Vec<&[u8]> = line.split(|&b| b == b'\t').collect();
        let arg = |i: usize| -> &Path { Path::new(OsStr::from_bytes(parts.get(i).copied().unwrap_or(b""))) };
        match parts[0] {
            b"normpath" => match std::panic::catch_unwind(|| redo::normpath(arg(1)).into_owned()) {
                Ok(r) => out.write_all(r.as_os_str().as_bytes()).unwrap(),
                Err(_) => write!(out, "PANIC").unwrap(),
            },
            b"relpath" => match std::panic::catch_unwind(|| redo::relpath(arg(1), arg(2))) {
                Ok(Ok(r)) => out.write_all(r.as_os_str().as_bytes()).unwrap(),
                Ok(Err(e)) => write!(out, "ERR {}", e).unwrap(),
                Err(_) => write!(out, "PANIC").unwrap(),
            },
            b"abs" => {
                let r = redo::abs_path(arg(1), arg(2));
                out.write_all(r.as_os_str().as_bytes()).unwrap();
            }
            b"dofiles" => {
                // a panic of the code under test is an answer, not a failure of this helper
                let r = std::panic::catch_unwind(|| {
                    let mut buf: Vec<u8> = Vec::new();
                    let mut first = true;
                    for df in redo::possible_do_files(arg(1)) {
                        if !first {
                            buf.push(b'\t');
                        }
                        first = false;
                        buf.extend_from_slice(df.do_dir().as_os_str().as_bytes());
                        buf.push(b'|');
                        buf.extend_from_slice(df.do_file().as_bytes());
                    }
                    buf
                });
                match r {
                    Ok(buf) => out.write_all(&buf).unwrap(),
                    Err(_) => write!(out, "PANIC").unwrap(),
                }
            }
            b"metaparse" => {
                // Meta::parse on the raw bytes (lossy UTF-8: the alphabets used are ASCII)
                let text = String::from_utf8_lossy(parts.get(1).copied().unwrap_or(b"")).into_owned();
                match std::panic::catch_unwind(|| redo::logs::Meta::parse(&text)).unwrap_or_else(|_| {
                    write!(io::stderr(), "metaparse panicked\n").ok();
                    redo::logs::Meta::parse("@@PANIC")
                }) {
                    Ok(m) => {
                        write!(out, "OK\x1f{}\x1f{}\x1f{}\x1f{}", m.kind(), m.pid().as_raw(), m.timestamp(), m.text()).unwrap();
                        if let Some((rv, name)) = m.done_text() {
                            write!(out, "\x1f{}\x1f{}", rv, name).unwrap();
                        }
                    }
                    Err(_) => write!(out, "ERR").unwrap(),
                }
            }
            _ => write!(out, "ERR unknown request").unwrap(),
        }
        out.write_all(b"\n").unwrap();
    }
    out.flush().unwrap();
}
